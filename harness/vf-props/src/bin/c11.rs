//! C11 — Replicated session and key revocations are never lost.
//!
//! Value level (bounded-exhaustive): for each merging value type (login sessions, OAuth2 sessions,
//! key objects) every combination of N replica states over K keys with each key's state drawn from
//! a small lattice is merged along EVERY binary merge tree (every order and grouping), the
//! newer/older role of each pairwise merge chosen by attribute change id exactly as
//! `Entry::merge_state` does. The result of every tree is compared with an expectation computed
//! independently from the inputs (per key: earliest revocation, else latest expiry, else never;
//! keys: highest status), which decides order/grouping independence, revocation dominance and
//! expiry monotonicity at once; idempotence and absorption (re-delivery of an already merged state
//! in either role) are checked separately. Audit logs and the per-account session cap are checked by
//! random search (their key space is too large to enumerate). End to end: the same kind of
//! concurrent session writes on 2-3 real replicas with random replication, then a full mesh.
use kanidmd_lib::prelude::*;
use kanidmd_lib::value::{AuthType, KeyStatus, KeyUsage, Oauth2Session, Session, SessionScope, SessionState};
use kanidmd_lib::valueset::{ValueSet, KeyInternalData, ValueSetAuditLogString, ValueSetKeyInternal, ValueSetOauth2Session, ValueSetSession, AUDIT_LOG_STRING_CAPACITY};
use proptest::prelude::*;
use serde::{Deserialize, Serialize};
use std::collections::{BTreeMap, BTreeSet};
use time::OffsetDateTime;
use vf_core::{CaseLog, Check, Outcome, PropCfg};
use vf_world::g_replx as gx;
use vf_world::srv;

// ---------------------------------------------------------------------------------------------
// lattice

#[derive(Debug, Clone, Copy, PartialEq, Eq, Hash, PartialOrd, Ord, Serialize, Deserialize)]
enum Ty {
    Session,
    Oauth2,
    Key,
}

/// Per-key state index 0..6:
/// sessions: 0 absent, 1 never-expires, 2 expires t1, 3 expires t2 (t1<t2), 4 revoked at r1, 5 revoked at r2 (r1<r2)
/// keys:     0 absent, 1 valid (status cid s0), 2 retained@r1, 3 retained@r2, 4 revoked@r1, 5 revoked@r2
const NV: u64 = 6;

#[derive(Debug, Clone, PartialEq, Eq, Hash, Serialize, Deserialize)]
struct Case {
    ty: Ty,
    /// leaves[i][k] = state index of key k in replica state i. Leaf i carries attribute cid a_i, a_0<a_1<...
    leaves: Vec<Vec<u8>>,
    /// index into TRIMS
    trim: u8,
    /// r1/r2 share the timestamp and differ only in the server uuid (boundary of Cid ordering)
    same_ts: bool,
}

/// trim positions relative to s0 < r1 < r2 < a_*: below everything, between r1 and r2, exactly r2,
/// between r2 and the attribute cids, above everything.
const TRIMS: [&str; 5] = ["below-all", "between-r1-r2", "equal-r2", "above-r2", "above-all"];

fn suuid(i: u8) -> Uuid {
    Uuid::from_u128(0x5e00_0000_0000_4000_8000_0000_0000_0000u128 + i as u128)
}
fn cid(ts: u64, nanos: u32, s: u8) -> Cid {
    Cid {
        ts: Duration::new(srv::T0_SECS + ts, nanos),
        s_uuid: suuid(s),
    }
}
fn s0() -> Cid {
    cid(10, 0, 0)
}
/// revocation cids; server uuids deliberately ordered against the timestamps
fn rcid(c: &Case, i: u8) -> Cid {
    if c.same_ts {
        // equal time, order decided by server uuid only
        cid(200, 0, 1 + i)
    } else if i == 0 {
        cid(100, 0, 9)
    } else {
        cid(200, 0, 1)
    }
}
fn leaf_cid(i: usize) -> Cid {
    // later leaves are newer; server uuid order is the reverse of time order
    cid(300 + 10 * i as u64, 0, 20 - i as u8)
}
fn trim_cid(c: &Case) -> Cid {
    match c.trim {
        0 => cid(50, 0, 0),
        1 => {
            if c.same_ts {
                // strictly between (200,s1) and (200,s2) does not exist for adjacent uuids: use r2 itself minus nothing -> fall back to a cid equal to r1's time with a server between
                Cid {
                    ts: Duration::new(srv::T0_SECS + 200, 0),
                    s_uuid: suuid(2),
                }
            } else {
                cid(150, 0, 0)
            }
        }
        2 => rcid(c, 1),
        3 => cid(250, 0, 0),
        _ => cid(1000, 0, 0),
    }
}

fn odt(secs: u64) -> OffsetDateTime {
    OffsetDateTime::UNIX_EPOCH + Duration::from_secs(srv::T0_SECS + secs)
}
fn key_uuid(k: usize) -> Uuid {
    Uuid::from_u128(0xc011_0000_0000_4000_8000_0000_0000_0000u128 + k as u128)
}
fn key_id(k: usize) -> String {
    format!("{:02x}aabbccdd", k)
}

fn sstate(c: &Case, v: u8) -> Option<SessionState> {
    match v {
        0 => None,
        1 => Some(SessionState::NeverExpires),
        2 => Some(SessionState::ExpiresAt(odt(5000))),
        3 => Some(SessionState::ExpiresAt(odt(6000))),
        4 => Some(SessionState::RevokedAt(rcid(c, 0))),
        _ => Some(SessionState::RevokedAt(rcid(c, 1))),
    }
}

fn session(k: usize, state: SessionState) -> Session {
    // immutable per-key metadata
    Session {
        label: format!("label-{k}"),
        state,
        issued_at: odt(k as u64),
        issued_by: IdentityId::User(key_uuid(100)),
        cred_id: key_uuid(200),
        scope: SessionScope::ReadWrite,
        type_: AuthType::Passkey,
        ext_metadata: Default::default(),
    }
}
fn osession(k: usize, state: SessionState) -> Oauth2Session {
    Oauth2Session {
        parent: Some(key_uuid(300 + k)),
        state,
        issued_at: odt(k as u64),
        rs_uuid: key_uuid(400 + (k % 2)),
    }
}

fn kstate(c: &Case, v: u8) -> Option<(KeyStatus, Cid)> {
    match v {
        0 => None,
        1 => Some((KeyStatus::Valid, s0())),
        2 => Some((KeyStatus::Retained, rcid(c, 0))),
        3 => Some((KeyStatus::Retained, rcid(c, 1))),
        4 => Some((KeyStatus::Revoked, rcid(c, 0))),
        _ => Some((KeyStatus::Revoked, rcid(c, 1))),
    }
}

/// canonical observable content of a value set: key index -> state rendered as text
type Obs = BTreeMap<usize, String>;

fn build(c: &Case, leaf: &[u8]) -> ValueSet {
    match c.ty {
        Ty::Session => ValueSetSession::from_iter(
            leaf.iter()
                .enumerate()
                .filter_map(|(k, v)| sstate(c, *v).map(|s| (key_uuid(k), session(k, s)))),
        )
        .expect("vs"),
        Ty::Oauth2 => ValueSetOauth2Session::from_iter(
            leaf.iter()
                .enumerate()
                .filter_map(|(k, v)| sstate(c, *v).map(|s| (key_uuid(k), osession(k, s)))),
        )
        .expect("vs"),
        Ty::Key => ValueSetKeyInternal::from_key_iter(leaf.iter().enumerate().filter_map(|(k, v)| {
            kstate(c, *v).map(|(status, status_cid)| {
                (
                    key_id(k).into(),
                    KeyInternalData {
                        usage: KeyUsage::JwsEs256,
                        valid_from: k as u64,
                        status,
                        status_cid,
                        der: vec![k as u8; 4].into(),
                    },
                )
            })
        }))
        .expect("vs"),
    }
}

fn fmt_state(s: &SessionState) -> String {
    match s {
        SessionState::NeverExpires => "never".into(),
        SessionState::ExpiresAt(t) => format!("exp:{}", t.unix_timestamp()),
        SessionState::RevokedAt(c) => format!("rev:{c:?}"),
    }
}

fn observe(c: &Case, nkeys: usize, vs: &ValueSet) -> Result<Obs, String> {
    let mut out = Obs::new();
    match c.ty {
        Ty::Session => {
            let m = vs.as_session_map().ok_or("not a session map")?;
            for (u, s) in m {
                let k = (0..nkeys).find(|k| key_uuid(*k) == *u).ok_or("foreign key in result")?;
                if session(k, s.state.clone()) != *s {
                    return Err(format!("metadata of session {k} changed: {s:?}"));
                }
                out.insert(k, fmt_state(&s.state));
            }
        }
        Ty::Oauth2 => {
            let m = vs.as_oauth2session_map().ok_or("not an oauth2 session map")?;
            for (u, s) in m {
                let k = (0..nkeys).find(|k| key_uuid(*k) == *u).ok_or("foreign key in result")?;
                if osession(k, s.state.clone()) != *s {
                    return Err(format!("metadata of oauth2 session {k} changed: {s:?}"));
                }
                out.insert(k, fmt_state(&s.state));
            }
        }
        Ty::Key => {
            let m = vs.as_key_internal_map().ok_or("not a key map")?;
            for (id, d) in m {
                let k = (0..nkeys).find(|k| key_id(*k) == id.to_string()).ok_or("foreign key in result")?;
                out.insert(k, format!("{}@{:?}", d.status, d.status_cid));
            }
        }
    }
    Ok(out)
}

#[derive(Clone)]
struct St {
    cid: Cid,
    vs: ValueSet,
}

/// One pairwise merge exactly as `Entry::merge_state` drives it for an attribute present on both
/// sides: the side with the greater attribute cid is "newer" and keeps its cid; `left_incoming`
/// only matters for equal cids (merge_state then keeps the database side as newer).
fn merge2(x: &St, y: &St, trim: &Cid, x_is_incoming: bool) -> St {
    let take_x = if x_is_incoming { x.cid > y.cid } else { x.cid >= y.cid };
    let (newer, older) = if take_x { (x, y) } else { (y, x) };
    let vs = newer.vs.repl_merge_valueset(&older.vs, trim).unwrap_or_else(|| newer.vs.clone());
    St {
        cid: newer.cid.clone(),
        vs,
    }
}

/// All results of merging the leaf set `idx` (bitmask) along every unordered binary tree.
fn all_trees(leaves: &[St], mask: u32, trim: &Cid, memo: &mut BTreeMap<u32, Vec<St>>) -> Vec<St> {
    if let Some(v) = memo.get(&mask) {
        return v.clone();
    }
    let out = if mask.count_ones() == 1 {
        vec![leaves[mask.trailing_zeros() as usize].clone()]
    } else {
        let mut out = Vec::new();
        // proper non-empty submasks; unordered => the part containing the lowest bit is `a`
        let low = mask & mask.wrapping_neg();
        let mut a = (mask - 1) & mask;
        while a > 0 {
            if a & low != 0 {
                let b = mask & !a;
                let ra = all_trees(leaves, a, trim, memo);
                let rb = all_trees(leaves, b, trim, memo);
                for x in &ra {
                    for y in &rb {
                        out.push(merge2(x, y, trim, true));
                    }
                }
            }
            a = (a - 1) & mask;
        }
        out
    };
    memo.insert(mask, out.clone());
    out
}

#[derive(Debug, PartialEq, Eq)]
enum Want {
    /// exactly this (None = absent)
    Exact(Option<String>),
    /// key status exactly this; status cid free (but must agree between trees)
    KeyStatus(String),
    /// absent or revoked (revocation older than the trim point; every input is absent/revoked)
    GoneOrRevoked,
    /// an input holds the key live although another input's revocation is older than the trim point:
    /// impossible under the replication window gate, no claim
    Unconstrained,
}

fn expect(c: &Case, k: usize) -> Want {
    let vals: Vec<u8> = c.leaves.iter().map(|l| l[k]).collect();
    let trim = trim_cid(c);
    match c.ty {
        Ty::Session | Ty::Oauth2 => {
            let revs: Vec<Cid> = vals.iter().filter(|v| **v >= 4).map(|v| rcid(c, v - 4)).collect();
            if let Some(min) = revs.iter().min() {
                if *min >= trim {
                    Want::Exact(Some(format!("rev:{min:?}")))
                } else if vals.iter().all(|v| *v == 0 || *v >= 4) {
                    Want::GoneOrRevoked
                } else {
                    Want::Unconstrained
                }
            } else if vals.contains(&3) {
                Want::Exact(Some(format!("exp:{}", odt(6000).unix_timestamp())))
            } else if vals.contains(&2) {
                Want::Exact(Some(format!("exp:{}", odt(5000).unix_timestamp())))
            } else if vals.contains(&1) {
                Want::Exact(Some("never".into()))
            } else {
                Want::Exact(None)
            }
        }
        Ty::Key => {
            let revs: Vec<Cid> = vals.iter().filter(|v| **v >= 4).map(|v| rcid(c, v - 4)).collect();
            if !revs.is_empty() {
                if revs.iter().all(|r| *r >= trim) {
                    Want::KeyStatus("revoked".into())
                } else if vals.iter().all(|v| *v == 0 || *v >= 4) {
                    Want::GoneOrRevoked
                } else {
                    Want::Unconstrained
                }
            } else if vals.iter().any(|v| *v == 2 || *v == 3) {
                Want::KeyStatus("retained".into())
            } else if vals.contains(&1) {
                Want::Exact(Some(format!("valid@{:?}", s0())))
            } else {
                Want::Exact(None)
            }
        }
    }
}

const SIG_ORDER: &str = "merge result depends on order/grouping or differs from the lattice join";
const SIG_LOST: &str = "revocation lost by merge";
const SIG_KEYCID: &str = "key merge: status change id of an equal-status key depends on merge order";
const SIG_IDEM: &str = "merge of a state with itself / re-delivery changes the state";

fn check_lattice(c: &Case) -> Outcome {
    let nkeys = c.leaves.first().map(|l| l.len()).unwrap_or(0);
    let trim = trim_cid(c);
    let leaves: Vec<St> = c
        .leaves
        .iter()
        .enumerate()
        .map(|(i, l)| St {
            cid: leaf_cid(i),
            vs: build(c, l),
        })
        .collect();
    let mut log = CaseLog::new();
    log.class(format!("type:{:?}", c.ty));
    log.class(format!("trim:{}", TRIMS[c.trim as usize]));
    // non-trivial: two leaves hold the same key in different states
    let mut disagree = false;
    let mut rev_vs_live = false;
    let mut two_revs = false;
    for k in 0..nkeys {
        let present: BTreeSet<u8> = c.leaves.iter().map(|l| l[k]).filter(|v| *v != 0).collect();
        if present.len() >= 2 {
            disagree = true;
        }
        if present.iter().any(|v| *v >= 4) && present.iter().any(|v| *v < 4) {
            rev_vs_live = true;
        }
        if present.contains(&4) && present.contains(&5) {
            two_revs = true;
        }
    }
    if disagree {
        log.nontrivial();
    }
    if rev_vs_live {
        log.class("revoked-vs-live");
    }
    if two_revs {
        log.class("two-revocations");
    }

    // idempotence (both roles) on every leaf; with the trim point applied the expectation is the
    // leaf trimmed by the independent rule
    for (i, l) in leaves.iter().enumerate() {
        for role in [true, false] {
            let m = merge2(l, l, &trim, role);
            let got = match observe(c, nkeys, &m.vs) {
                Ok(o) => o,
                Err(e) => return Outcome::fail("merge produced foreign content", e),
            };
            let mut want = observe(c, nkeys, &l.vs).unwrap_or_default();
            want.retain(|k, _| {
                let v = c.leaves[i][*k];
                !(v >= 4 && rcid(c, v - 4) < trim)
            });
            if got != want {
                log.fail(SIG_IDEM, format!("leaf {i} merged with itself: {got:?} want {want:?}"));
            }
        }
    }

    let full = (1u32 << leaves.len()) - 1;
    let mut memo = BTreeMap::new();
    let results = all_trees(&leaves, full, &trim, &mut memo);
    log.class(format!("trees:{}", results.len()));
    let wants: Vec<Want> = (0..nkeys).map(|k| expect(c, k)).collect();
    if wants.iter().any(|w| *w == Want::Unconstrained) {
        log.class("has-unconstrained-key");
    }
    if wants.iter().any(|w| *w == Want::GoneOrRevoked) {
        log.class("revocation-older-than-trim");
    }
    let mut first_obs: Option<Obs> = None;
    for r in &results {
        let got = match observe(c, nkeys, &r.vs) {
            Ok(o) => o,
            Err(e) => return Outcome::fail("merge produced foreign content", e),
        };
        for (k, w) in wants.iter().enumerate() {
            let g = got.get(&k);
            match w {
                Want::Exact(e) => {
                    if g != e.as_ref() {
                        let lost = e.as_deref().map(|s| s.starts_with("rev:")).unwrap_or(false) && !g.map(|s| s.starts_with("rev:")).unwrap_or(false);
                        log.fail(
                            if lost { SIG_LOST } else { SIG_ORDER },
                            format!("key {k}: some merge tree gives {g:?}, lattice join is {e:?}; all: {got:?}"),
                        );
                    }
                }
                Want::KeyStatus(s) => match g {
                    Some(gs) if gs.starts_with(&format!("{s}@")) => {}
                    _ => {
                        log.fail(
                            if s == "revoked" { SIG_LOST } else { SIG_ORDER },
                            format!("key {k}: some merge tree gives {g:?}, want status {s}"),
                        );
                    }
                },
                Want::GoneOrRevoked => {
                    if let Some(gs) = g {
                        if !(gs.starts_with("rev:") || gs.starts_with("revoked@")) {
                            log.fail(SIG_LOST, format!("key {k}: some merge tree gives {gs}, inputs were all revoked/absent"));
                        }
                    }
                }
                Want::Unconstrained => {}
            }
        }
        // tree agreement on everything that is constrained exactly (incl. key status cids)
        match &first_obs {
            None => first_obs = Some(got),
            Some(f) => {
                for (k, w) in wants.iter().enumerate() {
                    if matches!(w, Want::KeyStatus(_)) && f.get(&k) != got.get(&k) {
                        log.fail(SIG_KEYCID, format!("key {k}: {:?} vs {:?}", f.get(&k), got.get(&k)));
                    }
                }
            }
        }
    }
    // absorption: re-delivering a leaf into a fully merged state (either role) changes nothing
    if let Some(m) = results.first() {
        let base = observe(c, nkeys, &m.vs).unwrap_or_default();
        for (i, l) in leaves.iter().enumerate() {
            for role in [true, false] {
                let again = merge2(l, m, &trim, role);
                let got = observe(c, nkeys, &again.vs).unwrap_or_default();
                for (k, w) in wants.iter().enumerate() {
                    if matches!(w, Want::Exact(_) | Want::KeyStatus(_)) && got.get(&k) != base.get(&k) {
                        log.fail(SIG_IDEM, format!("re-delivery of leaf {i} (incoming={role}) changed key {k}: {:?} -> {:?}", base.get(&k), got.get(&k)));
                    }
                }
            }
        }
    }
    log.finish()
}

fn enum_case(ty: Ty, nleaves: usize, nkeys: usize, trims: &[u8], mut i: u64) -> Case {
    let trim = trims[(i % trims.len() as u64) as usize];
    i /= trims.len() as u64;
    let same_ts = i % 2 == 1;
    i /= 2;
    let mut leaves = Vec::new();
    for _ in 0..nleaves {
        let mut l = Vec::new();
        for _ in 0..nkeys {
            l.push((i % NV) as u8);
            i /= NV;
        }
        leaves.push(l);
    }
    Case { ty, leaves, trim, same_ts }
}

// ---------------------------------------------------------------------------------------------
// audit log strings: union capped at AUDIT_LOG_STRING_CAPACITY newest, by cid

#[derive(Debug, Clone, Serialize, Deserialize)]
struct AuditCase {
    /// leaf i = set of grid indices 0..14 (each leaf already respects the cap, as local inserts do)
    leaves: Vec<BTreeSet<u8>>,
}

fn audit_cid(i: u8) -> Cid {
    // pairs of equal timestamps with different servers
    cid(10 + (i / 2) as u64, 0, 7 - (i % 2))
}
fn audit_case() -> impl Strategy<Value = AuditCase> {
    proptest::collection::vec(proptest::collection::btree_set(0u8..14, 0..=AUDIT_LOG_STRING_CAPACITY), 2..=4).prop_map(|leaves| AuditCase { leaves })
}

fn check_audit(c: &AuditCase) -> Outcome {
    let mk = |s: &BTreeSet<u8>| -> Option<ValueSet> {
        if s.is_empty() {
            return None;
        }
        Some(ValueSetAuditLogString::from_dbvs2(s.iter().map(|i| (audit_cid(*i), format!("event-{i}"))).collect()).expect("vs"))
    };
    let leaves: Vec<St> = c
        .leaves
        .iter()
        .enumerate()
        .filter_map(|(i, s)| mk(s).map(|vs| St { cid: leaf_cid(i), vs }))
        .collect();
    if leaves.len() < 2 {
        return Outcome::discard();
    }
    let mut union: BTreeMap<Cid, String> = BTreeMap::new();
    for s in &c.leaves {
        for i in s {
            union.insert(audit_cid(*i), format!("event-{i}"));
        }
    }
    let over = union.len() > AUDIT_LOG_STRING_CAPACITY;
    while union.len() > AUDIT_LOG_STRING_CAPACITY {
        union.pop_first();
    }
    let trim = cid(0, 0, 0);
    let mut memo = BTreeMap::new();
    let results = all_trees(&leaves, (1u32 << leaves.len()) - 1, &trim, &mut memo);
    let mut log = CaseLog::new();
    log.class("type:AuditLog");
    if over {
        log.class("audit-union-over-capacity");
        log.nontrivial();
    }
    for r in &results {
        let Some(got) = r.vs.as_audit_log_string() else {
            return Outcome::fail("merge produced foreign content", "not an audit log");
        };
        if *got != union {
            log.fail(
                "audit log merge is not the capped union of its inputs",
                format!("got {:?} want {:?}", got.keys().collect::<Vec<_>>(), union.keys().collect::<Vec<_>>()),
            );
        }
    }
    for l in &leaves {
        for role in [true, false] {
            let m = merge2(l, l, &trim, role);
            if m.vs.as_audit_log_string() != l.vs.as_audit_log_string() {
                log.fail(SIG_IDEM, "audit log merged with itself changed");
            }
        }
    }
    log.finish()
}

// ---------------------------------------------------------------------------------------------
// session cap: more sessions than SESSION_MAXIMUM (48) — the forced trim keeps the newest issued

const SESSION_MAXIMUM: usize = 48;

#[derive(Debug, Clone, Serialize, Deserialize)]
struct CapCase {
    /// per leaf: per key (0..60) state 0..6 (as the session lattice); leaves hold at most 49 keys
    leaves: Vec<Vec<u8>>,
}
fn cap_case() -> impl Strategy<Value = CapCase> {
    let leaf = (proptest::collection::vec(prop_oneof![3 => Just(0u8), 10 => 1u8..6], 60), 0usize..60).prop_map(|(mut v, rot)| {
        // respect the local cap: drop (make absent) surplus keys starting at a random position
        let mut i = rot;
        while v.iter().filter(|x| **x != 0).count() > SESSION_MAXIMUM + 1 {
            v[i % 60] = 0;
            i += 1;
        }
        v
    });
    proptest::collection::vec(leaf, 2..=3).prop_map(|leaves| CapCase { leaves })
}

fn check_cap(c: &CapCase) -> Outcome {
    let base = Case {
        ty: Ty::Session,
        leaves: c.leaves.clone(),
        trim: 0,
        same_ts: false,
    };
    let nkeys = 60;
    let leaves: Vec<St> = c
        .leaves
        .iter()
        .enumerate()
        .map(|(i, l)| St {
            cid: leaf_cid(i),
            vs: build(&base, l),
        })
        .collect();
    // independent expectation: per-key join, then keep the SESSION_MAXIMUM newest by issue time
    // (issued_at of key k is k seconds, all distinct)
    let mut want = Obs::new();
    for k in 0..nkeys {
        if let Want::Exact(Some(s)) = expect(&base, k) {
            want.insert(k, s);
        }
    }
    let over = want.len() > SESSION_MAXIMUM;
    while want.len() > SESSION_MAXIMUM {
        want.pop_first();
    }
    let trim = trim_cid(&base);
    let mut memo = BTreeMap::new();
    let results = all_trees(&leaves, (1u32 << leaves.len()) - 1, &trim, &mut memo);
    let mut log = CaseLog::new();
    log.class("type:SessionCap");
    if over {
        log.class("session-union-over-cap");
        log.nontrivial();
    }
    for r in &results {
        match observe(&base, nkeys, &r.vs) {
            Ok(got) => {
                if got != want {
                    let d: Vec<_> = (0..nkeys).filter(|k| got.get(k) != want.get(k)).map(|k| (k, got.get(&k), want.get(&k))).collect();
                    let lost = d.iter().any(|(_, g, w)| w.map(|s| s.starts_with("rev:")).unwrap_or(false) && g.map(|s| !s.starts_with("rev:")).unwrap_or(false));
                    log.fail(if lost { SIG_LOST } else { SIG_ORDER }, format!("capped merge differs (key, got, want): {d:?}"));
                }
            }
            Err(e) => log.fail("merge produced foreign content", e),
        }
    }
    log.finish()
}

// ---------------------------------------------------------------------------------------------

fn main() {
    let cx = Check::from_args("C11", "exploration");
    cx.rule(
        "bounded-exhaustive: N replica states (quick N=3; thorough also N=4) x K=2 keys (thorough also K=3), each key state from a 6-point lattice \
         (absent, never, expires t1<t2, revoked r1<r2; keys: absent, valid, retained@r1/r2, revoked@r1/r2), x 5 trim points x 2 cid-tie variants, for login sessions, OAuth2 sessions and key objects; \
         every case is merged along EVERY unordered binary merge tree with newer/older chosen by attribute cid as Entry::merge_state does, and each tree's result is compared with the lattice join computed from the inputs; \
         plus idempotence and re-delivery in both roles; random search for audit logs (capped union) and the 48-session cap; \
         end-to-end: random concurrent session adds/revocations with clock skew on 2-3 real replicas, random replication, full mesh, then identical session maps and earliest-revocation dominance. \
         non-trivial = two inputs hold the same key in different states (e2e: a revocation concurrent with another write to the session attribute); enumerated cases are distinct by construction",
    );
    cx.assume("per-key immutable metadata (label, scope, issue time, parent, resource server, key material) is identical on every replica, as the issuing code guarantees");
    cx.assume("an input that holds a key live while another input's revocation of it is older than the trim point is impossible under the replication window gate (C09/C10) and carries no claim");
    cx.assume("API tokens are plain last-writer-wins values (no repl_merge_valueset) and carry no revocation state: out of scope of this property");

    let (nl, nk) = (3usize, 2usize);
    let all_trims: Vec<u8> = (0..5).collect();
    for ty in [Ty::Session, Ty::Oauth2, Ty::Key] {
        let total = NV.pow((nl * nk) as u32) * 2 * all_trims.len() as u64;
        let tr = &all_trims;
        cx.enumerate(&format!("lattice-{ty:?}-n{nl}-k{nk}"), total, |i| enum_case(ty, nl, nk, tr, i), || (), |_, c| check_lattice(c));
    }
    if cx.tier == vf_core::Tier::Thorough {
        for ty in [Ty::Session, Ty::Oauth2, Ty::Key] {
            let trims: Vec<u8> = vec![0, 1, 2];
            let total = NV.pow(8) * 2 * trims.len() as u64;
            let tr = &trims;
            cx.enumerate(&format!("lattice-{ty:?}-n4-k2"), total, |i| enum_case(ty, 4, 2, tr, i), || (), |_, c| check_lattice(c));
            let trims: Vec<u8> = vec![0, 2];
            let total = NV.pow(9) * 2 * trims.len() as u64;
            let tr = &trims;
            cx.enumerate(&format!("lattice-{ty:?}-n3-k3"), total, |i| enum_case(ty, 3, 3, tr, i), || (), |_, c| check_lattice(c));
        }
    }
    // random larger lattice cases (also the sub-check that replays the committed regression inputs)
    cx.prop(
        "lattice-random",
        PropCfg::new(cx.tier.pick(3_000, 100_000)),
        || {
            (
                prop_oneof![Just(Ty::Session), Just(Ty::Oauth2), Just(Ty::Key)],
                proptest::collection::vec(proptest::collection::vec(0u8..NV as u8, 3), 2..=4),
                0u8..5,
                any::<bool>(),
            )
                .prop_map(|(ty, leaves, trim, same_ts)| Case { ty, leaves, trim, same_ts })
        },
        || (),
        |_, c| check_lattice(c),
    );
    cx.prop("audit-log", PropCfg::new(cx.tier.pick(20_000, 400_000)), audit_case, || (), |_, c| check_audit(c));
    cx.prop("session-cap", PropCfg::new(cx.tier.pick(1_500, 40_000)), cap_case, || (), |_, c| check_cap(c));

    let n = cx.tier.pick(200, 6_000);
    cx.prop(
        "e2e-sessions",
        PropCfg::new(n).shrink(200),
        || gx::sess::arb_case(),
        srv::runtime,
        |rt, c| gx::sess::run(rt, c),
    );
    gx::fail_on_harness_errors(&cx);
    cx.require_class("revoked-vs-live", 1000);
    cx.require_class("two-revocations", 1000);
    cx.require_class("audit-union-over-capacity", 1000);
    cx.require_class("session-union-over-cap", 100);
    cx.require_class("e2e:concurrent-revocation", 40);
    cx.finish();
}
