//! C10 — Replication range comparison decides supply, refresh or refusal correctly.
//!
//! Oracle: a decision table written from the property text (not from the implementation).
use kanidmd_lib::repl::proto::ReplCidRange;
use kanidmd_lib::verif_hooks::repl::{range_diff, RangeDiff};
use proptest::prelude::*;
use serde::{Deserialize, Serialize};
use std::collections::{BTreeMap, BTreeSet};
use std::time::Duration;
use uuid::Uuid;
use vf_core::{Check, Outcome, PropCfg, Tier};

/// One server's view on both sides: None = side does not know the server, Some((min,max)) grid idx.
#[derive(Debug, Clone, Serialize, Deserialize, PartialEq)]
struct Case {
    /// grid of times the indices refer to (seconds, nanos)
    grid: Vec<(u64, u32)>,
    servers: Vec<(Option<(u8, u8)>, Option<(u8, u8)>)>, // (consumer, supplier)
}

fn windows() -> Vec<Option<(u8, u8)>> {
    let mut w = vec![None];
    for min in 0..=4u8 {
        for max in min..=4u8 {
            w.push(Some((min, max)));
        }
    }
    w
}

fn dur(grid: &[(u64, u32)], i: u8) -> Duration {
    let (s, n) = grid[i as usize];
    Duration::new(s, n)
}

fn suuid(i: usize) -> Uuid {
    Uuid::from_u128(0x1000_0000_0000_0000_0000_0000_0000_0000u128 + i as u128)
}

#[derive(Debug, PartialEq, Eq, Clone, Copy, PartialOrd, Ord)]
enum Rel {
    ConsumerOnly,
    SupplierOnly,
    Lagging,
    Advanced,
    NeedsSupply,
    UpToDate,
}

#[derive(Debug, PartialEq, Eq)]
enum Expect {
    NoOverlap,
    Ok(BTreeMap<Uuid, (Duration, Duration)>),
    Refresh(BTreeSet<Uuid>),
    Unwilling(BTreeSet<Uuid>),
    Critical(BTreeSet<Uuid>, BTreeSet<Uuid>),
}

fn reference(case: &Case) -> (Expect, BTreeSet<Rel>) {
    let mut rels = BTreeSet::new();
    let mut common = 0;
    let mut lag = BTreeSet::new();
    let mut adv = BTreeSet::new();
    let mut supply = BTreeMap::new();
    for (i, (c, s)) in case.servers.iter().enumerate() {
        let u = suuid(i);
        match (c, s) {
            (None, None) => {}
            (Some(_), None) => {
                rels.insert(Rel::ConsumerOnly);
            }
            (None, Some((_, smax))) => {
                rels.insert(Rel::SupplierOnly);
                supply.insert(u, (Duration::ZERO, dur(&case.grid, *smax)));
            }
            (Some((cmin, cmax)), Some((smin, smax))) => {
                common += 1;
                let (cmin, cmax, smin, smax) = (
                    dur(&case.grid, *cmin),
                    dur(&case.grid, *cmax),
                    dur(&case.grid, *smin),
                    dur(&case.grid, *smax),
                );
                if cmax < smin {
                    rels.insert(Rel::Lagging);
                    lag.insert(u);
                } else if smax < cmin {
                    rels.insert(Rel::Advanced);
                    adv.insert(u);
                } else if cmax < smax {
                    rels.insert(Rel::NeedsSupply);
                    supply.insert(u, (cmax, smax));
                } else {
                    rels.insert(Rel::UpToDate);
                }
            }
        }
    }
    let e = if common == 0 {
        Expect::NoOverlap
    } else {
        match (lag.is_empty(), adv.is_empty()) {
            (true, true) => Expect::Ok(supply),
            (false, true) => Expect::Refresh(lag),
            (true, false) => Expect::Unwilling(adv),
            (false, false) => Expect::Critical(lag, adv),
        }
    };
    (e, rels)
}

fn build(case: &Case) -> (BTreeMap<Uuid, ReplCidRange>, BTreeMap<Uuid, ReplCidRange>) {
    let mut c = BTreeMap::new();
    let mut s = BTreeMap::new();
    for (i, (cw, sw)) in case.servers.iter().enumerate() {
        if let Some((a, b)) = cw {
            c.insert(
                suuid(i),
                ReplCidRange {
                    ts_min: dur(&case.grid, *a),
                    ts_max: dur(&case.grid, *b),
                },
            );
        }
        if let Some((a, b)) = sw {
            s.insert(
                suuid(i),
                ReplCidRange {
                    ts_min: dur(&case.grid, *a),
                    ts_max: dur(&case.grid, *b),
                },
            );
        }
    }
    (c, s)
}

fn keys(m: &BTreeMap<Uuid, ReplCidRange>) -> BTreeSet<Uuid> {
    m.keys().copied().collect()
}

fn check(case: &Case) -> Outcome {
    let (c, s) = build(case);
    let got = range_diff(&c, &s);
    let (want, rels) = reference(case);
    let relc: Vec<String> = rels.iter().map(|r| format!("rel:{r:?}")).collect();
    let nontrivial = rels
        .iter()
        .filter(|r| !matches!(r, Rel::ConsumerOnly))
        .count()
        >= 2;
    let ok = match (&got, &want) {
        (RangeDiff::NoRUVOverlap, Expect::NoOverlap) => true,
        (RangeDiff::Ok(m), Expect::Ok(w)) => {
            let g: BTreeMap<Uuid, (Duration, Duration)> =
                m.iter().map(|(k, v)| (*k, (v.ts_min, v.ts_max))).collect();
            &g == w
        }
        (RangeDiff::Refresh { lag_range }, Expect::Refresh(l)) => &keys(lag_range) == l,
        (RangeDiff::Unwilling { adv_range }, Expect::Unwilling(a)) => &keys(adv_range) == a,
        (
            RangeDiff::Critical {
                lag_range,
                adv_range,
            },
            Expect::Critical(l, a),
        ) => &keys(lag_range) == l && &keys(adv_range) == a,
        _ => false,
    };
    let variant = match &want {
        Expect::NoOverlap => "want:NoOverlap",
        Expect::Ok(_) => "want:Ok",
        Expect::Refresh(_) => "want:Refresh",
        Expect::Unwilling(_) => "want:Unwilling",
        Expect::Critical(..) => "want:Critical",
    };
    if ok {
        Outcome::pass(nontrivial).class(variant).classes(relc)
    } else {
        Outcome::fail(
            format!("range_diff != reference ({variant})"),
            format!("consumer={c:?} supplier={s:?} got={got:?} want={want:?}"),
        )
    }
}

fn small_grid() -> Vec<(u64, u32)> {
    (0..=4u64).map(|i| (i, 0)).collect()
}

fn enum_case(k: usize, mut i: u64, w: &[Option<(u8, u8)>]) -> Case {
    let mut servers = Vec::with_capacity(k);
    for _ in 0..k {
        let c = w[(i % 16) as usize];
        i /= 16;
        let s = w[(i % 16) as usize];
        i /= 16;
        servers.push((c, s));
    }
    Case {
        grid: small_grid(),
        servers,
    }
}

fn big_grid() -> Vec<(u64, u32)> {
    vec![
        (0, 0),
        (0, 1),
        (0, 999_999_999),
        (1, 0),
        (1, 1),
        (2, 0),
        (59, 999_999_999),
        (60, 0),
        (86_400, 0),
        (604_800, 0),
        (1_700_000_000, 0),
        (1_700_000_000, 1),
        (4_102_444_800, 0),
        (u32::MAX as u64, 0),
        (u64::MAX - 1, 0),
        (u64::MAX, 999_999_999),
    ]
}

fn random_case() -> impl Strategy<Value = Case> {
    let win = prop_oneof![
        1 => Just(None),
        4 => (0u8..16, 0u8..16).prop_map(|(a, b)| Some((a.min(b), a.max(b)))),
    ];
    proptest::collection::vec((win.clone(), win), 0..=8).prop_map(|servers| Case {
        grid: big_grid(),
        servers,
    })
}

fn main() {
    let cx = Check::from_args("C10", "exploration");
    cx.rule(
        "bounded-exhaustive: every pair of per-server windows (unknown or [min,max], 0<=min<=max<=4) for k servers \
         (quick k<=2, thorough k<=3) + random maps of <=8 servers over a boundary-heavy Duration grid incl. 0 and Duration::MAX; \
         oracle = decision table written from the property text; non-trivial = at least two different server relations \
         (lagging/advanced/needs-supply/up-to-date/supplier-only) in one comparison; enumerated cases are distinct by construction, random ones by hash",
    );
    cx.assume("refusal ranges are compared by the set of servers they name, not by their bounds");
    let w = windows();
    assert_eq!(w.len(), 16);
    let kmax = cx.tier.pick(2, 3);
    for k in 1..=kmax {
        let total = 256u64.pow(k as u32);
        let wref = &w;
        cx.enumerate(
            &format!("exhaustive-k{k}"),
            total,
            |i| enum_case(k, i, wref),
            || (),
            |_, c| check(c),
        );
    }
    let n = match cx.tier {
        Tier::Quick => 200_000,
        Tier::Thorough => 3_000_000,
    };
    cx.prop("random-maps", PropCfg::new(n), random_case, || (), |_, c| check(c));
    // the exhaustive part is complete; the evidence flag describes the enumerated sub-checks
    cx.finish();
}
