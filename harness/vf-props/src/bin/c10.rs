//! C10 — Replication range comparison decides supply, refresh or refusal correctly.
//!
//! Oracle: a decision table written from the property text (not from the implementation).
use kanidmd_lib::repl::proto::ReplCidRange;
use kanidmd_lib::verif_hooks::repl::{range_diff, RangeDiff};
use proptest::prelude::*;
use serde::{Deserialize, Serialize};
use std::collections::{BTreeMap, BTreeSet};
use std::time::Duration;
use uuid::Uuid;
use vf_core::{Check, Outcome, PropCfg, Tier};

/// One server's view on both sides: None = side does not know the server, Some((min,max)) grid idx.
#[derive(Debug, Clone, Serialize, Deserialize, PartialEq)]
struct Case {
    /// grid of times the indices refer to (seconds, nanos)
    grid: Vec<(u64, u32)>,
    servers: Vec<(Option<(u8, u8)>, Option<(u8, u8)>)>, // (consumer, supplier)
}

fn windows() -> Vec<Option<(u8, u8)>> {
    let mut w = vec![None];
    for min in 0..=4u8 {
        for max in min..=4u8 {
            w.push(Some((min, max)));
        }
    }
    w
}

fn dur(grid: &[(u64, u32)], i: u8) -> Duration {
    let (s, n) = grid[i as usize];
    Duration::new(s, n)
}

fn suuid(i: usize) -> Uuid {
    Uuid::from_u128(0x1000_0000_0000_0000_0000_0000_0000_0000u128 + i as u128)
}

#[derive(Debug, PartialEq, Eq, Clone, Copy, PartialOrd, Ord)]
enum Rel {
    ConsumerOnly,
    SupplierOnly,
    Lagging,
    Advanced,
    NeedsSupply,
    UpToDate,
}

#[derive(Debug, PartialEq, Eq)]
enum Expect {
    NoOverlap,
    Ok(BTreeMap<Uuid, (Duration, Duration)>),
    Refresh(BTreeSet<Uuid>),
    Unwilling(BTreeSet<Uuid>),
    Critical(BTreeSet<Uuid>, BTreeSet<Uuid>),
}

fn reference(case: &Case) -> (Expect, BTreeSet<Rel>) {
    let mut rels = BTreeSet::new();
    let mut common = 0;
    let mut lag = BTreeSet::new();
    let mut adv = BTreeSet::new();
    let mut supply = BTreeMap::new();
    for (i, (c, s)) in case.servers.iter().enumerate() {
        let u = suuid(i);
        match (c, s) {
            (None, None) => {}
            (Some(_), None) => {
                rels.insert(Rel::ConsumerOnly);
            }
            (None, Some((_, smax))) => {
                rels.insert(Rel::SupplierOnly);
                supply.insert(u, (Duration::ZERO, dur(&case.grid, *smax)));
            }
            (Some((cmin, cmax)), Some((smin, smax))) => {
                common += 1;
                let (cmin, cmax, smin, smax) = (
                    dur(&case.grid, *cmin),
                    dur(&case.grid, *cmax),
                    dur(&case.grid, *smin),
                    dur(&case.grid, *smax),
                );
                if cmax < smin {
                    rels.insert(Rel::Lagging);
                    lag.insert(u);
                } else if smax < cmin {
                    rels.insert(Rel::Advanced);
                    adv.insert(u);
                } else if cmax < smax {
                    rels.insert(Rel::NeedsSupply);
                    supply.insert(u, (cmax, smax));
                } else {
                    rels.insert(Rel::UpToDate);
                }
            }
        }
    }
    let e = if common == 0 {
        Expect::NoOverlap
    } else {
        match (lag.is_empty(), adv.is_empty()) {
            (true, true) => Expect::Ok(supply),
            (false, true) => Expect::Refresh(lag),
            (true, false) => Expect::Unwilling(adv),
            (false, false) => Expect::Critical(lag, adv),
        }
    };
    (e, rels)
}

fn build(case: &Case) -> (BTreeMap<Uuid, ReplCidRange>, BTreeMap<Uuid, ReplCidRange>) {
    let mut c = BTreeMap::new();
    let mut s = BTreeMap::new();
    for (i, (cw, sw)) in case.servers.iter().enumerate() {
        if let Some((a, b)) = cw {
            c.insert(
                suuid(i),
                ReplCidRange {
                    ts_min: dur(&case.grid, *a),
                    ts_max: dur(&case.grid, *b),
                },
            );
        }
        if let Some((a, b)) = sw {
            s.insert(
                suuid(i),
                ReplCidRange {
                    ts_min: dur(&case.grid, *a),
                    ts_max: dur(&case.grid, *b),
                },
            );
        }
    }
    (c, s)
}

fn keys(m: &BTreeMap<Uuid, ReplCidRange>) -> BTreeSet<Uuid> {
    m.keys().copied().collect()
}

fn check(case: &Case) -> Outcome {
    let (c, s) = build(case);
    let got = range_diff(&c, &s);
    let (want, rels) = reference(case);
    let relc: Vec<String> = rels.iter().map(|r| format!("rel:{r:?}")).collect();
    let nontrivial = rels
        .iter()
        .filter(|r| !matches!(r, Rel::ConsumerOnly))
        .count()
        >= 2;
    let ok = match (&got, &want) {
        (RangeDiff::NoRUVOverlap, Expect::NoOverlap) => true,
        (RangeDiff::Ok(m), Expect::Ok(w)) => {
            let g: BTreeMap<Uuid, (Duration, Duration)> =
                m.iter().map(|(k, v)| (*k, (v.ts_min, v.ts_max))).collect();
            &g == w
        }
        (RangeDiff::Refresh { lag_range }, Expect::Refresh(l)) => &keys(lag_range) == l,
        (RangeDiff::Unwilling { adv_range }, Expect::Unwilling(a)) => &keys(adv_range) == a,
        (
            RangeDiff::Critical {
                lag_range,
                adv_range,
            },
            Expect::Critical(l, a),
        ) => &keys(lag_range) == l && &keys(adv_range) == a,
        _ => false,
    };
    let variant = match &want {
        Expect::NoOverlap => "want:NoOverlap",
        Expect::Ok(_) => "want:Ok",
        Expect::Refresh(_) => "want:Refresh",
        Expect::Unwilling(_) => "want:Unwilling",
        Expect::Critical(..) => "want:Critical",
    };
    if ok {
        Outcome::pass(nontrivial).class(variant).classes(relc)
    } else {
        Outcome::fail(
            format!("range_diff != reference ({variant})"),
            format!("consumer={c:?} supplier={s:?} got={got:?} want={want:?}"),
        )
    }
}

fn small_grid() -> Vec<(u64, u32)> {
    (0..=4u64).map(|i| (i, 0)).collect()
}

fn enum_case(k: usize, mut i: u64, w: &[Option<(u8, u8)>]) -> Case {
    let mut servers = Vec::with_capacity(k);
    for _ in 0..k {
        let c = w[(i % 16) as usize];
        i /= 16;
        let s = w[(i % 16) as usize];
        i /= 16;
        servers.push((c, s));
    }
    Case {
        grid: small_grid(),
        servers,
    }
}

fn big_grid() -> Vec<(u64, u32)> {
    vec![
        (0, 0),
        (0, 1),
        (0, 999_999_999),
        (1, 0),
        (1, 1),
        (2, 0),
        (59, 999_999_999),
        (60, 0),
        (86_400, 0),
        (604_800, 0),
        (1_700_000_000, 0),
        (1_700_000_000, 1),
        (4_102_444_800, 0),
        (u32::MAX as u64, 0),
        (u64::MAX - 1, 0),
        (u64::MAX, 999_999_999),
    ]
}

fn random_case() -> impl Strategy<Value = Case> {
    let win = prop_oneof![
        1 => Just(None),
        4 => (0u8..16, 0u8..16).prop_map(|(a, b)| Some((a.min(b), a.max(b)))),
    ];
    proptest::collection::vec((win.clone(), win), 0..=8).prop_map(|servers| Case {
        grid: big_grid(),
        servers,
    })
}

fn main() {
    let cx = Check::from_args("C10", "exploration");
    cx.rule(
        "bounded-exhaustive: every pair of per-server windows (unknown or [min,max], 0<=min<=max<=4) for k servers \
         (quick k<=2, thorough k<=3) + random maps of <=8 servers over a boundary-heavy Duration grid incl. 0 and Duration::MAX; \
         oracle = decision table written from the property text; non-trivial = at least two different server relations \
         (lagging/advanced/needs-supply/up-to-date/supplier-only) in one comparison; enumerated cases are distinct by construction, random ones by hash",
    );
    cx.assume("refusal ranges are compared by the set of servers they name, not by their bounds");
    let w = windows();
    assert_eq!(w.len(), 16);
    let kmax = cx.tier.pick(2, 3);
    for k in 1..=kmax {
        let total = 256u64.pow(k as u32);
        let wref = &w;
        cx.enumerate(
            &format!("exhaustive-k{k}"),
            total,
            |i| enum_case(k, i, wref),
            || (),
            |_, c| check(c),
        );
    }
    let n = match cx.tier {
        Tier::Quick => 200_000,
        Tier::Thorough => 3_000_000,
    };
    cx.prop("random-maps", PropCfg::new(n), random_case, || (), |_, c| check(c));

    // ---- the supplier's mapping of the decision onto the wire answer (supplier_provide_changes)
    // Exhaustive: every combination of the six window relations per supplier-known server
    // (2 servers) x an extra consumer-only server x domain mismatch, against a real supplier.
    cx.enumerate(
        "supplier-answer-mapping",
        6 * 6 * 2 * 2,
        |i| MapCase {
            rel: vec![(i % 6) as u8, ((i / 6) % 6) as u8],
            extra_unknown: (i / 36) % 2 == 1,
            domain_mismatch: (i / 72) % 2 == 1,
        },
        mapping_state,
        |st, c| mapping_check(st, c),
    );
    cx.finish();
}

// -------------------------------------------------------------------------------------------------
use kanidmd_lib::prelude::QueryServerTransaction;
use kanidmd_lib::repl::proto::{ReplIncrementalContext, ReplRuvRange};
use vf_world::ops::{Op, Step};
use vf_world::repl::Cluster;

#[derive(Debug, Clone, Serialize, Deserialize)]
struct MapCase {
    /// per supplier-known server (sorted by uuid): 0 absent on consumer, 1 lagging (entirely before
    /// the supplier window), 2 behind but overlapping, 3 identical window, 4 ahead but overlapping,
    /// 5 advanced (entirely after the supplier window)
    rel: Vec<u8>,
    extra_unknown: bool,
    domain_mismatch: bool,
}

struct MapState {
    rt: tokio::runtime::Runtime,
    cl: Cluster,
    supplier: Vec<(Uuid, Duration, Duration)>,
    domain: Uuid,
}

fn mapping_state() -> MapState {
    let rt = vf_world::srv::runtime();
    let (cl, supplier, domain) = rt.block_on(async {
        let mut cl = Cluster::new(2).await;
        // writes on both replicas at several times, replicated both ways, so that the supplier's RUV
        // knows two servers, each with a window of non-zero width
        let steps = vec![
            Step::Do { r: 0, op: Op::CreatePerson { i: 0, name: 0 } },
            Step::Do { r: 1, op: Op::CreatePerson { i: 1, name: 1 } },
            Step::Repl { from: 1, to: 0 },
            Step::Repl { from: 0, to: 1 },
            Step::Do { r: 0, op: Op::Advance { secs: 60 } },
            Step::Do { r: 1, op: Op::Advance { secs: 90 } },
            Step::Do { r: 0, op: Op::CreateGroup { i: 0, name: 2, members: vec![] } },
            Step::Do { r: 1, op: Op::CreateGroup { i: 1, name: 3, members: vec![] } },
            Step::Repl { from: 1, to: 0 },
        ];
        for s in &steps {
            cl.step(s).await;
        }
        let mut r = cl.nodes[0].qs.read().await.expect("read");
        let ranges = kanidmd_lib::verif_hooks::repl::filtered_ruv_range(&mut r).expect("ruv");
        let domain = r.get_domain_uuid();
        let sup: Vec<(Uuid, Duration, Duration)> = ranges.into_iter().map(|(u, r)| (u, r.ts_min, r.ts_max)).collect();
        drop(r);
        (cl, sup, domain)
    });
    MapState { rt, cl, supplier, domain }
}

fn mapping_check(st: &mut MapState, c: &MapCase) -> Outcome {
    // the supplier may know more than two servers (e.g. the origin of the initial content); the first
    // two (by uuid) get the generated relation, the rest are presented as identical windows.
    if st.supplier.len() < 2 {
        return Outcome::fail("harness: supplier RUV has fewer than two servers", format!("{:?}", st.supplier));
    }
    let s1 = Duration::from_secs(1);
    let mut consumer: BTreeMap<Uuid, ReplCidRange> = BTreeMap::new();
    let mut lag = 0;
    let mut adv = 0;
    let mut common = 0;
    let mut supply = 0;
    for (i, (u, smin, smax)) in st.supplier.iter().enumerate() {
        let mut rel = if i < 2 { c.rel[i] } else { 3 };
        if rel == 1 && *smin < s1 + s1 {
            // no room for a window entirely before the supplier's: present the identical window
            rel = 3;
        }
        let w = match rel {
            0 => None,
            1 => Some((*smin - s1 - s1, *smin - s1)),
            2 => {
                if smin < smax {
                    Some((*smin, *smax - Duration::from_nanos(1)))
                } else {
                    Some((*smin, *smax))
                }
            }
            3 => Some((*smin, *smax)),
            4 => Some((*smax, *smax + s1)),
            _ => Some((*smax + s1, *smax + s1 + s1)),
        };
        match w {
            None => supply += 1,
            Some((a, b)) => {
                common += 1;
                if b < *smin {
                    lag += 1;
                } else if *smax < a {
                    adv += 1;
                } else if b < *smax {
                    supply += 1;
                }
                consumer.insert(*u, ReplCidRange { ts_min: a, ts_max: b });
            }
        }
    }
    if c.extra_unknown {
        consumer.insert(
            suuid(99),
            ReplCidRange {
                ts_min: Duration::from_secs(5),
                ts_max: Duration::from_secs(6),
            },
        );
    }
    let want = if c.domain_mismatch {
        "DomainMismatch"
    } else if common == 0 {
        "UnwillingToSupply"
    } else {
        match (lag > 0, adv > 0) {
            (true, false) => "RefreshRequired",
            (false, true) | (true, true) => "UnwillingToSupply",
            (false, false) => {
                if supply > 0 {
                    "V1"
                } else {
                    "NoChangesAvailable"
                }
            }
        }
    };
    let ctx = ReplRuvRange::V1 {
        domain_uuid: if c.domain_mismatch { suuid(7) } else { st.domain },
        ranges: consumer,
    };
    let got = st.rt.block_on(async {
        let mut r = st.cl.nodes[0].qs.read().await.expect("read");
        r.supplier_provide_changes(ctx)
    });
    let got_s = match &got {
        Ok(ReplIncrementalContext::DomainMismatch) => "DomainMismatch",
        Ok(ReplIncrementalContext::NoChangesAvailable) => "NoChangesAvailable",
        Ok(ReplIncrementalContext::RefreshRequired) => "RefreshRequired",
        Ok(ReplIncrementalContext::UnwillingToSupply) => "UnwillingToSupply",
        Ok(ReplIncrementalContext::V1 { .. }) => "V1",
        Err(_) => "Err",
    };
    if got_s == want {
        Outcome::pass(lag + adv > 0 || supply > 0).class(format!("answer:{want}"))
    } else {
        Outcome::fail(
            format!("supplier answer differs from the decision table (want {want})"),
            format!("case {c:?} supplier windows {:?}: got {got_s}, want {want}", st.supplier),
        )
    }
}
