//! C26 — Recycle bin lifecycle holds.
//!
//! Random delete / revive / purge histories over users and groups at virtual times drawn around
//! the recycle-bin retention and the changelog window, judged against a model per uuid
//! {Live, Recycled(t), Tombstone(t), Gone}: legal transitions only and only by the operation that
//! owns them; no Recycled->Tombstone before the retention age and no Tombstone->Gone before the
//! changelog age (and both have happened from +2 s); normal searches never show recycled or
//! tombstoned entries; the recycle-bin search shows exactly the recycled set to a recycle-bin
//! administrator and nothing to an ordinary user; an administrator's revive of a recycled entry
//! succeeds and restores the direct memberships of groups that stayed alive; ordinary users cannot
//! revive; tombstones can never be revived.
use kanidmd_lib::event::ReviveRecycledEvent;
use kanidmd_lib::modify::{Modify, ModifyList};
use kanidmd_lib::prelude::*;
use kanidmd_lib::value::Value;
use kanidmd_lib::verif_hooks::ident;
use proptest::prelude::*;
use serde::{Deserialize, Serialize};
use std::collections::{BTreeMap, BTreeSet};
use vf_core::{CaseLog, Check, Outcome, PropCfg};
use vf_world::dump::{proto_values, status_of, Status};
use vf_world::g_integrity as gi;
use vf_world::inv;
use vf_world::ops::{self, Node, Op, Ref, Weights};
use vf_world::{pop, srv};

const W_RECYCLE: u64 = 7 * 86400; // RECYCLEBIN_MAX_AGE
const W_CHANGELOG: u64 = 7 * 86400; // CHANGELOG_MAX_AGE

#[derive(Debug, Clone, Serialize, Deserialize)]
enum XOp {
    Base(Op),
    /// revive through the access-controlled path as the recycle-bin administrator or an ordinary user
    ReviveAs { admin: bool, t: Ref },
    /// one revive request (recycle-bin administrator) whose filter names several entries at once
    ReviveMany { ts: Vec<Ref> },
}

#[derive(Debug, Clone, Serialize, Deserialize)]
struct Case {
    ops: Vec<XOp>,
}

fn admin_uuid() -> Uuid {
    pop::uuid_of(pop::Kind::Other, 0x500)
}
fn user_uuid() -> Uuid {
    pop::uuid_of(pop::Kind::Other, 0x501)
}

#[derive(Debug, Clone, Copy, PartialEq, Eq)]
enum St {
    Live,
    Recycled,
    Tombstone,
    Gone,
}

fn st_of(entries: &[gi::E], u: Uuid) -> St {
    match entries.iter().find(|e| e.get_uuid() == u).map(|e| status_of(e)) {
        None => St::Gone,
        Some(Status::Live) => St::Live,
        Some(Status::Recycled) | Some(Status::Conflict) => St::Recycled,
        Some(Status::Tombstone) => St::Tombstone,
    }
}

fn is_pop(u: Uuid) -> bool {
    u.as_u128() >> 112 == 0xAAAA
}

async fn setup() -> Node {
    let mut node = Node::new().await;
    let mut w = node.qs.write(node.now()).await.expect("write");
    w.internal_create(vec![pop::person(admin_uuid(), "c26admin"), pop::person(user_uuid(), "c26user")]).expect("users");
    w.internal_modify(
        &Filter::new_ignore_hidden(f_eq(Attribute::Uuid, PartialValue::Uuid(UUID_IDM_RECYCLE_BIN_ADMINS))),
        &ModifyList::new_list(vec![Modify::Present(Attribute::Member, Value::Refer(admin_uuid()))]),
    )
    .expect("recycle bin admins");
    w.commit().expect("commit");
    node.clock += 1;
    node
}

async fn ident_of(node: &Node, u: Uuid) -> Identity {
    let mut r = node.qs.read().await.expect("read");
    ident::user_readwrite(r.internal_search_uuid(u).expect("acting user"))
}

async fn apply_x(node: &mut Node, op: &XOp) -> Result<(), OperationError> {
    match op {
        XOp::Base(o) => ops::apply(node, o).await,
        XOp::ReviveAs { admin, t } => {
            let idt = ident_of(node, if *admin { admin_uuid() } else { user_uuid() }).await;
            let mut w = node.qs.write(node.now()).await?;
            let f = Filter::new(f_eq(Attribute::Uuid, PartialValue::Uuid(t.uuid())));
            let re = ReviveRecycledEvent::from_parts(idt, &f, &w)?;
            w.revive_recycled(&re)?;
            w.commit()?;
            node.clock += 1;
            Ok(())
        }
        XOp::ReviveMany { ts } => {
            let idt = ident_of(node, admin_uuid()).await;
            let mut w = node.qs.write(node.now()).await?;
            let f = Filter::new(f_or(ts.iter().map(|t| f_eq(Attribute::Uuid, PartialValue::Uuid(t.uuid()))).collect()));
            let re = ReviveRecycledEvent::from_parts(idt, &f, &w)?;
            w.revive_recycled(&re)?;
            w.commit()?;
            node.clock += 1;
            Ok(())
        }
    }
}

/// What each principal sees, through the access-controlled search.
async fn visible(node: &Node, who: Option<Uuid>, recycle_bin: bool) -> Result<BTreeSet<Uuid>, OperationError> {
    let idt = match who {
        Some(u) => Some(ident_of(node, u).await),
        None => None,
    };
    let mut r = node.qs.read().await?;
    let f = Filter::new(f_pres(Attribute::Class)).validate(r.get_schema()).map_err(OperationError::SchemaViolation)?;
    let f = if recycle_bin { f.into_recycled() } else { f.into_ignore_hidden() };
    match idt {
        Some(idt) => Ok(r.impersonate_search_ext_valid(f.clone(), f, &idt)?.iter().map(|e| e.get_uuid()).collect()),
        None => Ok(r.search(&kanidmd_lib::event::SearchEvent::new_internal(f))?.iter().map(|e| e.get_uuid()).collect()),
    }
}

fn weights() -> Weights {
    Weights {
        create: 6,
        rename: 1,
        attr: 1,
        member: 9,
        manager: 0,
        oauth2: 0,
        dyngroup: 0,
        posix: 0,
        delete: 12,
        revive: 4,
        purge: 9,
        reindex: 0,
        advance: 10,
        domain_rename: 0,
        bad: 0,
        missing_refs: false,
        persons: 4,
        services: 1,
        groups: 5,
        time_grid: vec![
            1,
            2,
            3,
            3600,
            W_RECYCLE - 4,
            W_RECYCLE - 3,
            W_RECYCLE - 2,
            W_RECYCLE - 1,
            W_RECYCLE,
            W_RECYCLE + 1,
            W_RECYCLE + 2,
            W_RECYCLE + 3,
            2 * W_RECYCLE,
        ]
        .into_iter()
        .map(|x| x as u32)
        .collect(),
    }
}

/// One op, or a short scripted run that lands a purge exactly `delta` seconds around a window:
/// delete at t, purge_recycled at t + 7d + delta; or purge_recycled at t, purge_tombstones at t + 7d + delta
/// (every committed op advances the clock by one second).
fn arb_chunk(w: &Weights) -> BoxedStrategy<Vec<XOp>> {
    let any = ops::arb_ref(w, false, false);
    let delta = -2i64..=3;
    prop_oneof![
        22 => arb_xop(w).prop_map(|o| vec![o]),
        3 => (any.clone(), arb_xop(w), proptest::bool::weighted(0.7)).prop_map(|(t, mid, admin)| vec![XOp::Base(Op::Delete { t }), mid, XOp::ReviveAs { admin, t }]),
        // several direct members of one group deleted, then revived by ONE request (batch revive)
        3 => (0u8..w.groups.max(1), proptest::collection::vec(0u8..w.persons.max(1), 2..4), proptest::bool::ANY).prop_map(|(g, ps, one_delete)| {
            let mut ps = ps;
            ps.sort();
            ps.dedup();
            let mut v: Vec<XOp> = ps.iter().map(|p| XOp::Base(Op::AddMember { g: Ref::G(g), m: Ref::P(*p) })).collect();
            let _ = one_delete;
            for p in &ps {
                v.push(XOp::Base(Op::Delete { t: Ref::P(*p) }));
            }
            v.push(XOp::ReviveMany { ts: ps.iter().map(|p| Ref::P(*p)).collect() });
            v
        }),
        1 => (any, delta.clone()).prop_map(|(t, d)| vec![
            XOp::Base(Op::Delete { t }),
            XOp::Base(Op::Advance { secs: (W_RECYCLE as i64 + d - 1) as u32 }),
            XOp::Base(Op::PurgeRecycled),
        ]),
        1 => delta.prop_map(|d| vec![
            XOp::Base(Op::PurgeRecycled),
            XOp::Base(Op::Advance { secs: (W_CHANGELOG as i64 + d - 1) as u32 }),
            XOp::Base(Op::PurgeTombstones),
        ]),
    ]
    .boxed()
}

fn arb_xop(w: &Weights) -> BoxedStrategy<XOp> {
    let any = ops::arb_ref(w, false, false);
    prop_oneof![
        12 => ops::arb_op(w).prop_map(XOp::Base),
        2 => any.clone().prop_map(|t| XOp::ReviveAs { admin: true, t }),
        1 => any.prop_map(|t| XOp::ReviveAs { admin: false, t }),
    ]
    .boxed()
}

struct RecInfo {
    /// seconds (world clock) at which the entry became recycled
    t: u64,
    /// static groups that listed it as a direct member when it was deleted and have been live ever since
    groups: BTreeSet<Uuid>,
}

fn run(rt: &tokio::runtime::Runtime, c: &Case) -> Outcome {
    let mut log = CaseLog::new();
    rt.block_on(async {
        let mut node = setup().await;
        let mut before = gi::read_all(&node).await;
        let mut rec: BTreeMap<Uuid, RecInfo> = BTreeMap::new();
        let mut tomb: BTreeMap<Uuid, u64> = BTreeMap::new();
        let mut classes: BTreeSet<&'static str> = BTreeSet::new();
        let mut nontrivial = false;
        let mut known_c17: Option<String> = None;
        for (step, op) in c.ops.iter().enumerate() {
            let now = node.clock; // seconds after the world epoch at which this op's transaction runs
            let res = apply_x(&mut node, op).await;
            if matches!(op, XOp::Base(Op::Advance { .. })) {
                continue;
            }
            let after = gi::read_all(&node).await;
            let ctx = format!("step {step} at t={now} {op:?} -> {res:?}");
            let uuids: BTreeSet<Uuid> = before.iter().chain(after.iter()).map(|e| e.get_uuid()).filter(|u| is_pop(*u)).collect();

            // --- rejected operations leave nothing behind
            if res.is_err() {
                let d = vf_world::dump::diff(
                    &gi::dump_of(&before),
                    &gi::dump_of(&after),
                    &vf_world::dump::DiffOpts {
                        skip_attrs: &[],
                        ids: true,
                        changestate: true,
                    },
                );
                if !d.is_empty() {
                    log.fail("rejected operation left a trace", format!("{ctx}: {:?}", &d[..d.len().min(6)]));
                }
            }

            // --- transitions: legal, owned by the right operation, and not too early
            for u in &uuids {
                let (a, b) = (st_of(&before, *u), st_of(&after, *u));
                if a == b {
                    continue;
                }
                let legal = match (a, b, op) {
                    (St::Gone, St::Live, XOp::Base(Op::CreatePerson { .. } | Op::CreateService { .. } | Op::CreateGroup { .. })) => true,
                    (St::Live, St::Recycled, XOp::Base(Op::Delete { .. })) => true,
                    (St::Recycled, St::Live, XOp::Base(Op::Revive { .. }) | XOp::ReviveAs { admin: true, .. } | XOp::ReviveMany { .. }) => true,
                    (St::Recycled, St::Tombstone, XOp::Base(Op::PurgeRecycled)) => true,
                    (St::Tombstone, St::Gone, XOp::Base(Op::PurgeTombstones)) => true,
                    _ => false,
                };
                if !legal {
                    let sig = match (a, b) {
                        (St::Tombstone, St::Live) | (St::Tombstone, St::Recycled) => "tombstone came back",
                        (St::Recycled, St::Live) => "recycled entry revived by someone who may not",
                        _ => "illegal recycle-bin lifecycle transition",
                    };
                    log.fail(sig, format!("{ctx}: {u} went {a:?} -> {b:?}"));
                    continue;
                }
                match (a, b) {
                    (St::Live, St::Recycled) => {
                        let groups: BTreeSet<Uuid> = before
                            .iter()
                            .filter(|g| status_of(g) == Status::Live && g.has_class(&EntryClass::Group) && is_pop(g.get_uuid()) && g.get_uuid() != *u)
                            .filter(|g| inv::refs(g, Attribute::Member).contains(u))
                            .map(|g| g.get_uuid())
                            .collect();
                        rec.insert(*u, RecInfo { t: now, groups });
                    }
                    (St::Recycled, St::Tombstone) => {
                        let t = rec.remove(u).map(|r| r.t).unwrap_or(0);
                        if now < t + W_RECYCLE {
                            log.fail(
                                "recycled entry tombstoned before the retention period elapsed",
                                format!("{ctx}: {u} recycled at {t}, tombstoned at {now} ({} s early)", t + W_RECYCLE - now),
                            );
                        }
                        if now <= t + W_RECYCLE + 2 {
                            classes.insert("tombstoned-within-2s-of-the-retention-boundary");
                            nontrivial = true;
                        }
                        tomb.insert(*u, now);
                    }
                    (St::Tombstone, St::Gone) => {
                        let t = tomb.remove(u).unwrap_or(0);
                        if now < t + W_CHANGELOG {
                            log.fail(
                                "tombstone removed before the changelog window elapsed",
                                format!("{ctx}: {u} tombstoned at {t}, removed at {now} ({} s early)", t + W_CHANGELOG - now),
                            );
                        }
                        if now <= t + W_CHANGELOG + 2 {
                            classes.insert("tombstone-reaped-within-2s-of-the-changelog-boundary");
                            nontrivial = true;
                        }
                        classes.insert("tombstone-reaped");
                    }
                    (St::Recycled, St::Live) => {
                        let info = rec.remove(u);
                        classes.insert("revived");
                        if matches!(op, XOp::ReviveAs { .. }) {
                            classes.insert("revived-by-recycle-bin-admin");
                        }
                        if let Some(info) = info {
                            // direct memberships of groups that stayed alive are back
                            for g in &info.groups {
                                let has = after.iter().find(|e| e.get_uuid() == *g).map(|e| inv::refs(e, Attribute::Member).contains(u)).unwrap_or(false);
                                if !has {
                                    log.fail(
                                        "revived entry did not regain a direct membership of a group that still exists",
                                        format!("{ctx}: {u} was a member of {g} when deleted; {g} stayed live, but does not list it after the revive"),
                                    );
                                }
                            }
                            if !info.groups.is_empty() {
                                classes.insert("revive-restored-memberships");
                            }
                        }
                    }
                    _ => {}
                }
            }
            // groups that stopped being live no longer count for restoration
            for info in rec.values_mut() {
                info.groups.retain(|g| st_of(&after, *g) == St::Live);
            }
            // a revive whose target had a member group deleted in between
            if res.is_ok() {
                if let XOp::Base(Op::Revive { t }) | XOp::ReviveAs { t, .. } = op {
                    if st_of(&before, t.uuid()) == St::Recycled {
                        let lost = before
                            .iter()
                            .find(|e| e.get_uuid() == t.uuid())
                            .map(|e| inv::refs(e, Attribute::RecycledDirectMemberOf).len())
                            .unwrap_or(0);
                        let _ = lost;
                    }
                }
            }

            // --- what must have happened (from +2 s on)
            if res.is_ok() {
                match op {
                    XOp::Base(Op::PurgeRecycled) => {
                        for e in before.iter().filter(|e| status_of(e) == Status::Recycled && is_pop(e.get_uuid())) {
                            // the server ages recycled entries by their last modification
                            let last = e.get_ava_set(Attribute::LastModifiedCid).and_then(|vs| vs.to_cid_single()).map(|c| c.ts.as_secs().saturating_sub(srv::T0_SECS)).unwrap_or(0);
                            if now >= last + W_RECYCLE + 2 && st_of(&after, e.get_uuid()) != St::Tombstone {
                                log.fail(
                                    "recycled entry not tombstoned although the retention period is over",
                                    format!("{ctx}: {} last modified at {last}, still {:?}", e.get_uuid(), st_of(&after, e.get_uuid())),
                                );
                            }
                        }
                        classes.insert("purge-recycled");
                    }
                    XOp::Base(Op::PurgeTombstones) => {
                        for (u, t) in tomb.clone() {
                            if now >= t + W_CHANGELOG + 2 && st_of(&after, u) != St::Gone {
                                log.fail(
                                    "tombstone not removed although the changelog window is over",
                                    format!("{ctx}: {u} tombstoned at {t}, still {:?}", st_of(&after, u)),
                                );
                            }
                        }
                        classes.insert("purge-tombstones");
                    }
                    _ => {}
                }
            }

            // --- revive expectations
            match op {
                XOp::Base(Op::Revive { t }) | XOp::ReviveAs { admin: true, t } => match st_of(&before, t.uuid()) {
                    St::Recycled => {
                        if res.is_err() {
                            // legitimate only if a live entry took its name meanwhile
                            let names: BTreeSet<String> = before
                                .iter()
                                .find(|e| e.get_uuid() == t.uuid())
                                .map(|e| proto_values(e, Attribute::Name).into_iter().collect())
                                .unwrap_or_default();
                            let taken = before.iter().any(|e| status_of(e) == Status::Live && proto_values(e, Attribute::Name).iter().any(|n| names.contains(n)));
                            if taken {
                                classes.insert("revive-refused:name-taken-meanwhile");
                            } else {
                                log.fail("revive of a recycled entry by an authorised identity was refused", ctx.clone());
                            }
                        }
                    }
                    St::Tombstone => {
                        classes.insert("revive-of-tombstone-attempted");
                        if st_of(&after, t.uuid()) != St::Tombstone {
                            log.fail("tombstone came back", format!("{ctx}: {} is {:?}", t.uuid(), st_of(&after, t.uuid())));
                        }
                    }
                    _ => {}
                },
                XOp::ReviveAs { admin: false, t } => {
                    if st_of(&before, t.uuid()) == St::Recycled {
                        classes.insert("revive-by-ordinary-user-attempted");
                        if res.is_ok() || st_of(&after, t.uuid()) != St::Recycled {
                            log.fail("recycled entry revived by someone who may not", format!("{ctx}: {} is {:?}", t.uuid(), st_of(&after, t.uuid())));
                        }
                    }
                }
                _ => {}
            }

            // --- visibility
            let recycled_now: BTreeSet<Uuid> = after.iter().filter(|e| status_of(e) == Status::Recycled).map(|e| e.get_uuid()).collect();
            let hidden_now: BTreeSet<Uuid> = after.iter().filter(|e| status_of(e) != Status::Live).map(|e| e.get_uuid()).collect();
            for (who, label) in [(None, "internal"), (Some(admin_uuid()), "recycle-bin admin"), (Some(user_uuid()), "ordinary user")] {
                match visible(&node, who, false).await {
                    Ok(seen) => {
                        if let Some(x) = seen.intersection(&hidden_now).next() {
                            log.fail("normal search returned a recycled or tombstoned entry", format!("{ctx}: {label} sees {x}"));
                        }
                    }
                    Err(e) => log.fail("harness: normal search failed", format!("{ctx}: {label}: {e:?}")),
                }
            }
            match visible(&node, Some(admin_uuid()), true).await {
                Ok(seen) => {
                    if seen != recycled_now {
                        let missing: Vec<_> = recycled_now.difference(&seen).collect();
                        let extra: Vec<_> = seen.difference(&recycled_now).collect();
                        log.fail("recycle-bin search of an administrator is not exactly the recycled set", format!("{ctx}: missing {missing:?} extra {extra:?}"));
                    }
                    if !seen.is_empty() {
                        classes.insert("recycle-bin-search-nonempty");
                    }
                }
                Err(e) => log.fail("harness: recycle-bin search failed", format!("{ctx}: {e:?}")),
            }
            match visible(&node, Some(user_uuid()), true).await {
                Ok(seen) if seen.is_empty() => {}
                Ok(seen) => log.fail("recycle-bin search discloses entries to an ordinary user", format!("{ctx}: {seen:?}")),
                // a refusal is as good as an empty answer
                Err(_) => {}
            }

            // --- after a revive the membership closure is exact again (C17's checker; its known finding is not re-reported here)
            if res.is_ok() && matches!(op, XOp::Base(Op::Revive { .. }) | XOp::ReviveAs { .. } | XOp::ReviveMany { .. }) {
                if let Some((sig, detail)) = inv::memberof_classify(&after) {
                    if sig == inv::SIG_MO_STALE_CYCLE {
                        known_c17.get_or_insert(detail);
                    } else {
                        log.fail("memberof closure wrong after a revive", format!("{ctx}: {detail}"));
                    }
                }
            }
            if log.failed() {
                break;
            }
            before = after;
        }
        for cl in classes {
            log.class(cl);
        }
        if known_c17.is_some() {
            log.class("c17-known-finding-state-seen(not judged here)");
        }
        if nontrivial {
            log.nontrivial();
        }
    });
    log.finish()
}

fn main() {
    let cx = Check::from_args("C26", "exploration");
    cx.rule(
        "random histories (population prefix + member edits, deletes, revives as internal / recycle-bin administrator / ordinary user, purge_recycled, purge_tombstones, clock steps of 1-3 s, 1 h and the 7-day windows -4..+3 s and x2) on a real in-memory server with a virtual clock; \
         model per uuid {Live, Recycled(t), Tombstone(t), Gone}: after EVERY op every state change must be a legal transition performed by the operation that owns it (delete, authorised revive, purge_recycled, purge_tombstones), Recycled->Tombstone never before t+7d and Tombstone->Gone never before t+7d, and from +2 s past the window (measured from the entry's stored last modification) a purge must have done it; \
         after EVERY op: normal searches (internal, administrator, ordinary user) return no recycled/tombstoned entry, the administrator's recycle-bin search equals the recycled set, an ordinary user's is empty; an authorised revive of a recycled entry succeeds (unless its name was taken meanwhile) and restores the direct memberships of groups that stayed live, after which memberof must be exact; ordinary users cannot revive; tombstones never come back; rejected ops leave the dump unchanged. \
         non-trivial = a Recycled->Tombstone or Tombstone->Gone transition happened within 2 s after its window boundary; distinct by hash of the history",
    );
    cx.assume("RECYCLEBIN_MAX_AGE and CHANGELOG_MAX_AGE are both 7 days in this build; at the exact boundary only 'not earlier' is asserted");
    cx.assume("cascade-deleted dependents (client certificate entries referring to an account) are not generated");
    let w = weights();
    let n = cx.tier.pick(500, 12_000);
    let len = cx.tier.pick(20..60usize, 30..140usize);
    cx.prop(
        "recycle-bin-histories",
        PropCfg::new(n).shrink(300),
        || {
            (ops::arb_prefix(&w), proptest::collection::vec(arb_chunk(&w), len.clone())).prop_map(|(p, o)| {
                let mut ops: Vec<XOp> = p.into_iter().map(XOp::Base).collect();
                ops.extend(o.into_iter().flatten());
                Case { ops }
            })
        },
        srv::runtime,
        |rt, c| run(rt, c),
    );
    cx.require_class("revived", 200);
    cx.require_class("revived-by-recycle-bin-admin", 100);
    cx.require_class("revive-restored-memberships", 50);
    cx.require_class("revive-by-ordinary-user-attempted", 50);
    cx.require_class("revive-of-tombstone-attempted", 20);
    cx.require_class("tombstoned-within-2s-of-the-retention-boundary", 50);
    cx.require_class("tombstone-reaped", 50);
    cx.require_class("tombstone-reaped-within-2s-of-the-changelog-boundary", 30);
    cx.require_class("recycle-bin-search-nonempty", 300);
    cx.finish();
}
