//! C08 — Replicas converge.
//!
//! Random concurrent write histories on 2-3 real in-memory replicas (own virtual clocks, generated
//! skew), interleaved with random incremental replication and refresh steps, then a full mesh until
//! nothing is supplied any more. Oracle: the canonical dumps of all replicas are EQUAL — same uuid
//! set (live, recycled, tombstone, conflict entries alike), same status, same values of every
//! attribute the schema replicates, same change state (creation/tombstone cid and per-attribute
//! cids) — and every replica's own `verify()` is empty.
use proptest::prelude::*;
use vf_core::{CaseLog, Check, Outcome, PropCfg};
use vf_world::g_replx::{self as gx, rh};
use vf_world::ops::{self, Step, Weights};
use vf_world::repl::{self, Cluster, ReplResult, StepResult};
use vf_world::srv;

fn weights() -> Weights {
    Weights {
        create: 12,
        rename: 5,
        attr: 9,
        member: 8,
        manager: 1,
        oauth2: 1,
        // creating a NEW dynamic group is reserved to migrations (system protection blocks it for every
        // other identity); the built-in dynamic groups are exercised by every person/account create
        dyngroup: 0,
        posix: 3,
        delete: 4,
        revive: 3,
        purge: 1,
        reindex: 0,
        advance: 3,
        domain_rename: 0,
        bad: 1,
        missing_refs: true,
        persons: 3,
        services: 1,
        groups: 4,
        // seconds; far below the recycle bin / changelog windows (those belong to C09)
        time_grid: vec![1, 2, 30, 600],
    }
}

fn arb_case(len: std::ops::Range<usize>) -> BoxedStrategy<rh::History> {
    let w = weights();
    prop_oneof![3 => Just(2u8), 2 => Just(3u8)]
        .prop_flat_map(move |n| {
            (ops::arb_steps(&w, n, len.clone(), 5, 1), proptest::bool::weighted(0.7), proptest::collection::vec(proptest::bool::weighted(0.45), 16), proptest::collection::vec(proptest::bool::weighted(0.35), 16)).prop_map(move |(steps, synced, keep, keep_refresh)| {
                // thin out the population prefix (the creates before the first replication step), so that later
                // creates of the same uuid on several replicas find it missing: same-uuid add conflicts
                let first_repl = steps.iter().position(|s| !matches!(s, Step::Do { .. })).unwrap_or(0);
                let steps = steps
                    .into_iter()
                    .enumerate()
                    .filter(|(i, _)| *i >= first_repl || keep[*i % 16])
                    // a refresh throws away the consumer's unreplicated writes: keep only about a third of them
                    .filter(|(i, s)| !matches!(s, Step::Refresh { .. }) || keep_refresh[*i % 16])
                    .map(|(_, s)| s)
                    .collect();
                rh::History { replicas: n, synced, steps }
            })
        })
        .boxed()
}

fn arb_dense() -> BoxedStrategy<rh::History> {
    use vf_world::ops::{AttrK, Op, Ref};
    let attr = prop_oneof![Just(AttrK::Description), Just(AttrK::LegalName), Just(AttrK::Mail)];
    let r = 0u8..3;
    let op = prop_oneof![
        3 => (attr.clone(), 0u8..3).prop_map(|(attr, v)| Op::SetAttr { t: Ref::P(0), attr, vals: vec![v] }),
        3 => attr.clone().prop_map(|attr| Op::PurgeAttr { t: Ref::P(0), attr }),
        1 => (attr, 0u8..3).prop_map(|(attr, val)| Op::AddAttr { t: Ref::P(0), attr, val }),
        2 => Just(Op::SetMembers { g: Ref::G(0), members: vec![] }),
        2 => Just(Op::SetMembers { g: Ref::G(0), members: vec![Ref::P(0)] }),
        1 => Just(Op::RemoveMember { g: Ref::G(0), m: Ref::P(0) }),
        1 => Just(Op::Advance { secs: 2 }),
    ];
    let pair = (0u8..3, 0u8..3).prop_filter_map("distinct", |(a, b)| if a != b { Some((a, b)) } else { None });
    let step = prop_oneof![
        5 => (r, op).prop_map(|(r, op)| Step::Do { r, op }),
        4 => pair.prop_map(|(from, to)| Step::Repl { from, to }),
    ];
    (proptest::collection::vec(step, 4..14), proptest::bool::weighted(0.8))
        .prop_map(|(body, synced)| {
            let mut steps = vec![
                Step::Do { r: 0, op: Op::CreatePerson { i: 0, name: 0 } },
                Step::Do { r: 0, op: Op::CreateGroup { i: 0, name: 1, members: vec![Ref::P(0)] } },
                Step::Do { r: 0, op: Op::SetAttr { t: Ref::P(0), attr: AttrK::Description, vals: vec![0] } },
                Step::Repl { from: 0, to: 1 },
                Step::Repl { from: 0, to: 2 },
            ];
            steps.extend(body);
            rh::History { replicas: 3, synced, steps }
        })
        .boxed()
}

const SIG_APPLY: &str = "consumer failed to apply a supplied change set";
const SIG_SUPPLY: &str = "supplier failed to provide changes";
const SIG_REFRESH: &str = "refresh failed";
const SIG_SKEW: &str = "verify(): an attribute change id is earlier than the entry's creation id (replica with a lagging clock edited a newer entry)";
const SIG_NOQUIET: &str = "replication does not quiesce within 10 full-mesh rounds (no refusal involved)";

/// signature of a dump discrepancy: the kind of difference (and the attribute), never uuids/cids
fn diff_sig(line: &str) -> String {
    // lines look like "<uuid>: <what> ..."
    let rest = line.splitn(2, ": ").nth(1).unwrap_or(line);
    let what = if rest.starts_with("only in") {
        "entry exists on one replica only".to_string()
    } else if rest.starts_with("status") {
        "entry status differs".to_string()
    } else if rest.starts_with("attr ") {
        format!("attribute {} differs", rest.split_whitespace().nth(1).unwrap_or("?").trim_end_matches(':'))
    } else if rest.starts_with("at ") {
        "creation/tombstone change id differs".to_string()
    } else if rest.starts_with("change cid of") {
        format!("change id of attribute {} differs", rest.split_whitespace().nth(3).unwrap_or("?").trim_end_matches(':'))
    } else {
        "other".to_string()
    };
    format!("replicas differ after quiescence: {what}")
}

async fn run(c: &rh::History) -> Outcome {
    let n = c.replicas.clamp(2, 3) as usize;
    let mut cl = Cluster::new(n).await;
    let mut ca = rh::Causal::new(n);
    let mut log = CaseLog::new();
    let mut refusal = false;
    let mut applied = 0usize;
    for (i, s) in c.steps.iter().enumerate() {
        if c.synced {
            rh::sync_clock(&mut cl, rh::acting_replica(s, n));
        }
        let r = cl.step(s).await;
        match (s, &r) {
            (Step::Do { r: rep, op }, StepResult::Op(Ok(()))) if repl::is_write(op) => ca.wrote(*rep as usize % n, op),
            (Step::Repl { from, to }, StepResult::Repl(res)) => match res {
                ReplResult::Applied => {
                    applied += 1;
                    ca.replicated(*from as usize % n, *to as usize % n)
                }
                ReplResult::NoChanges => {}
                ReplResult::ConsumerError(e) => log.fail(SIG_APPLY, format!("step {i} {s:?}: {e}")),
                ReplResult::SupplierError(e) => log.fail(SIG_SUPPLY, format!("step {i} {s:?}: {e}")),
                other if rh::is_refusal(other) => refusal = true,
                _ => {}
            },
            (Step::Refresh { from, to }, StepResult::Refresh(res)) => match res {
                Ok(()) => ca.refreshed(*from as usize % n, *to as usize % n),
                Err(e) => log.fail(SIG_REFRESH, format!("step {i} {s:?}: {e:?}")),
            },
            _ => {}
        }
    }
    if c.synced {
        for i in 0..n {
            rh::sync_clock(&mut cl, i);
        }
    }
    let (quiet, results) = rh::mesh(&mut cl, 10, c.synced).await;
    for r in &results {
        match r {
            ReplResult::ConsumerError(e) => log.fail(SIG_APPLY, format!("during the final mesh: {e}")),
            ReplResult::SupplierError(e) => log.fail(SIG_SUPPLY, format!("during the final mesh: {e}")),
            other if rh::is_refusal(other) => refusal = true,
            _ => {}
        }
    }
    if refusal {
        // a refusal is C09/C10 territory; convergence is only claimed when every replica was served
        return Outcome::discard().class("discard:refusal-involved");
    }
    if !quiet && !log.failed() {
        log.fail(SIG_NOQUIET, format!("{} replication steps in the mesh", results.len()));
    }
    let mut dumps = Vec::new();
    for i in 0..n {
        dumps.push(cl.dump(i).await);
    }
    let skip = rh::non_replicated(&cl, &dumps).await;
    let diffs = rh::compare(&dumps, &skip);
    let (unexplained, stale_msg, stranded_msg, self_msg) = rh::split_stale_local(&cl, &dumps, &diffs).await;
    if let Some((i, first)) = unexplained.first() {
        let lines: Vec<String> = unexplained.iter().take(8).map(|(i, l)| format!("[0 vs {i}] {l}")).collect();
        log.fail(diff_sig(first), format!("replica 0 vs {i}: {} differences; {:?}; excluded (not replicated): {:?}", diffs.len(), lines, skip));
    }
    // verify(): kanidm's own consistency checker. One complaint is classified separately because it is
    // explained by generated clock skew alone: an attribute change id EARLIER than the entry's creation
    // id (a replica whose clock is behind edits an entry created "in its future"; transaction change
    // ids only ever advance past the replica's own previous ids, never past received ones).
    let mut skew: Option<String> = None;
    for i in 0..n {
        let v = rh::verify(&cl, i).await;
        if v.is_empty() {
            continue;
        }
        let by_id: std::collections::BTreeMap<u64, &vf_world::dump::EntryDump> = dumps[i].values().map(|e| (e.id, e)).collect();
        let explained = v.iter().all(|e| {
            e.strip_prefix("ChangeStateDesynchronised(")
                .and_then(|r| r.strip_suffix(')'))
                .and_then(|id| id.parse::<u64>().ok())
                .and_then(|id| by_id.get(&id).copied())
                .map(|e| e.changes.values().any(|c| *c < e.at))
                .unwrap_or(false)
        });
        if explained {
            skew.get_or_insert(format!("replica {i}: {:?}", &v[..v.len().min(4)]));
        } else {
            let kind = v[0].split(['(', ' ']).next().unwrap_or("?").to_string();
            log.fail(format!("verify() is not clean after quiescence: {kind}"), format!("replica {i}: {:?}", &v[..v.len().min(6)]));
        }
    }
    if let Some(m) = self_msg {
        log.class("diverged:self-source-marker");
        log.fail(rh::SIG_SELF_SOURCE, m);
    }
    if let Some(m) = stranded_msg {
        log.class("diverged:stranded-merged-value");
        log.fail(rh::SIG_STRANDED_ATTR, m);
    }
    if let Some(m) = stale_msg {
        log.class("diverged:stale-local-write-kept");
        log.fail(rh::SIG_STALE_LOCAL, m);
    }
    if let Some(m) = skew {
        log.class("verify:change-id-before-creation-id");
        log.fail(SIG_SKEW, m);
    }
    log.class(format!("replicas-{n}"));
    log.class(if c.synced { "clocks:synchronised" } else { "clocks:skewed" });
    if applied > 0 {
        log.class("replicated-change-applied");
    }
    let conc = ca.labels.iter().any(|l| l == "concurrent:same-entry" || l == "concurrent:same-name-different-entry");
    if conc {
        log.nontrivial();
    }
    for l in &ca.labels {
        log.class(l.clone());
    }
    let conflicts = dumps[0].values().filter(|e| e.status == vf_world::dump::Status::Conflict).count();
    if conflicts > 0 {
        log.class("final-state-has-conflict-entries");
    }
    log.finish()
}

fn main() {
    let cx = Check::from_args("C08", "exploration");
    cx.rule(
        "random histories: population prefix on replica 0 replicated to all, then 10-35 (thorough 20-70) steps = writes on random replicas \
         (create incl. the same uuid / the same name on several replicas, rename, set/add/purge attribute, member add/remove/set, enable/disable posix (class edit), delete, revive, manager, oauth2 scope map, dyngroup, per-replica clock advances = skew) \
         interleaved with random incremental replication and refresh steps over 2-3 replicas, then full-mesh rounds until no change set is supplied; \
         oracle: pairwise dump equality with replica 0 (uuid set, status, every schema-replicated attribute, creation cid and per-attribute change ids) and empty verify() on every replica; \
         non-trivial = at least one true concurrency pair (two committed writes to the same entry, or claiming the same name for different entries, on different replicas with neither having received the other); distinct by hash of the history",
    );
    cx.assume("attributes the schema marks replicated=false (memberof, directmemberof, dynmember, last_modified_cid, created_at_cid) are excluded from the comparison; the list is derived from the server's schema at run time and recorded in every failure message");
    cx.assume("a history in which any replication step answered RefreshRequired/Unwilling/DomainMismatch is discarded (counted), as the property only speaks about replicas that received every change");
    cx.assume("session/key merging value types are covered by C11, not generated here");
    let n = cx.tier.pick(220, 6_000);
    let len = cx.tier.pick(10..30usize, 20..70usize);
    cx.prop("histories", PropCfg::new(n).shrink(250), || arb_case(len.clone()), srv::runtime, |rt, c| rt.block_on(run(c)));
    // Dense three-replica relay scenarios on ONE entry and few attributes: set / purge / member edits
    // racing on different replicas with relayed replication (x -> y -> z). Uniform histories reach the
    // "purge newer than a concurrent set, delivered to the third replica in the other order" shape
    // too rarely (a seeded merge_state change that only diverges with a relay went unnoticed).
    let nd = cx.tier.pick(160, 4_000);
    cx.prop("dense-relay", PropCfg::new(nd).shrink(250), arb_dense, srv::runtime, |rt, c| rt.block_on(run(c)));
    gx::fail_on_harness_errors(&cx);
    cx.require_class("concurrent:same-entry", 40);
    cx.require_class("replicas-3", 30);
    cx.require_class("concurrent:create+create", 3);
    cx.finish();
}
