//! C15 — Every stored entry satisfies the schema.
//!
//! Three sub-checks, each an op history on real servers with the harness's own schema checker run
//! over ALL live entries after every op:
//!  * `dl14-schema-additions`: a server at domain level 14 — the newest level at which the schema is
//!    stored as attributetype/classtype ENTRIES and can be extended at run time. Histories add
//!    attribute and class definitions, put the new classes/attributes on entries, and mix in
//!    ill-typed requests. The checker is driven by the schema ENTRIES found in the database.
//!  * `target-level-histories`: the default domain level (schema in memory only, no additions
//!    possible): creates/modifies incl. ill-typed values, missing MUST, multi values on
//!    single-valued attributes, unknown attributes/classes, class removal orphaning attributes.
//!  * `two-replica-merges`: individually valid edits on two replicas merged by replication.
use kanidmd_lib::modify::{Modify, ModifyList};
use kanidmd_lib::prelude::*;
use kanidmd_lib::value::Value;
use proptest::prelude::*;
use serde::{Deserialize, Serialize};
use vf_core::{CaseLog, Check, Outcome, PropCfg};
use vf_world::dump::{status_of, Status};
use vf_world::g_integrity as gi;
use vf_world::ops::{self, Node, Op, Ref, Weights, DESCS};
use vf_world::repl::{Cluster, ReplResult};
use vf_world::{pop, srv};

const N_CATTR: u8 = 4;
const N_CCLASS: u8 = 2;
/// custom attribute k: (syntax, multivalue)
const CATTR: [(&str, bool); 4] = [("UTF8STRING", false), ("UINT32", true), ("UTF8STRING_INSENSITIVE", true), ("BOOLEAN", false)];
/// classes that RemoveClass / AddKnownClass pick from
const CLASSES: [&str; 9] = ["person", "account", "posixaccount", "group", "c15class0", "c15class1", "object", "service_account", "posixgroup"];

fn cattr(k: u8) -> Attribute {
    Attribute::from(format!("c15attr{}", k % N_CATTR).as_str())
}
fn cclass(k: u8) -> String {
    format!("c15class{}", k % N_CCLASS)
}
fn schema_uuid(kind: u128, k: u8) -> Uuid {
    Uuid::from_u128(0xCCCC_0000_0000_4000_8000_0000_0000_0000u128 | (kind << 32) | k as u128)
}

/// value of kind 0 utf8, 1 uint32, 2 iutf8, 3 bool
fn cvalue(kind: u8, i: u8) -> Value {
    match kind % 4 {
        0 => Value::new_utf8s(DESCS[i as usize % DESCS.len()]),
        1 => Value::Uint32(1000 + i as u32),
        2 => Value::new_iutf8(DESCS[i as usize % DESCS.len()]),
        _ => Value::new_bool(i % 2 == 0),
    }
}

#[derive(Debug, Clone, Serialize, Deserialize)]
enum XOp {
    Base(Op),
    /// define custom attribute k (syntax and cardinality fixed per k)
    AddAttrType { k: u8 },
    /// define custom class k with must/may drawn from the custom attributes (bit masks) plus description
    AddClassType { k: u8, must: u8, may: u8 },
    /// put custom class k on an entry, optionally supplying values for some custom attributes
    AddClass { t: Ref, k: u8, with: Vec<(u8, u8, u8)> },
    AddKnownClass { t: Ref, c: u8 },
    RemoveClass { t: Ref, c: u8 },
    /// purge + present values (attr k, each value of some kind — often the wrong one)
    SetCustom { t: Ref, k: u8, vals: Vec<(u8, u8)> },
    AddCustom { t: Ref, k: u8, val: (u8, u8) },
    PurgeCustom { t: Ref, k: u8 },
    UnknownAttr { t: Ref },
    /// a value of the wrong type on a built-in attribute
    WrongSyntax { t: Ref, which: u8 },
    /// purge a MUST attribute other than name
    PurgeMust { t: Ref, which: u8 },
    /// create an entry lacking a MUST attribute / carrying an undefined class or attribute
    CreateBroken { i: u8, how: u8 },
    /// an entry of class extensibleobject with arbitrary known attributes
    CreateExtensible { i: u8, phantom: bool },
}

#[derive(Debug, Clone, Serialize, Deserialize)]
struct Case {
    ops: Vec<XOp>,
}
#[derive(Debug, Clone, Serialize, Deserialize)]
enum RStep {
    Do { r: u8, op: XOp },
    Repl { from: u8, to: u8 },
}
#[derive(Debug, Clone, Serialize, Deserialize)]
struct RCase {
    steps: Vec<RStep>,
}

fn live_filter(u: Uuid) -> Filter<FilterInvalid> {
    Filter::new_ignore_hidden(f_eq(Attribute::Uuid, PartialValue::Uuid(u)))
}

fn apply_x<'n>(node: &'n mut Node, op: &'n XOp) -> gi::OpFuture<'n> {
    Box::pin(async move {
        if let XOp::Base(o) = op {
            return ops::apply(node, o).await;
        }
        let mut w = node.qs.write(node.now()).await?;
        let modify = |w: &mut QueryServerWriteTransaction<'_>, t: &Ref, m: Vec<Modify>| w.internal_modify(&live_filter(t.uuid()), &ModifyList::new_list(m));
        match op {
            XOp::Base(_) => unreachable!(),
            XOp::AddAttrType { k } => {
                let k = k % N_CATTR;
                let (syn, multi) = CATTR[k as usize];
                let mut e: pop::NewEntry = kanidmd_lib::entry::Entry::new();
                e.add_ava(Attribute::Class, EntryClass::Object.to_value());
                e.add_ava(Attribute::Class, EntryClass::AttributeType.to_value());
                e.add_ava(Attribute::Uuid, Value::Uuid(schema_uuid(1, k)));
                e.add_ava(Attribute::AttributeName, Value::from(cattr(k)));
                e.add_ava(Attribute::Description, Value::new_utf8s("c15 custom attribute"));
                e.add_ava(Attribute::MultiValue, Value::new_bool(multi));
                e.add_ava(Attribute::Unique, Value::new_bool(false));
                e.add_ava(Attribute::Syntax, Value::new_syntaxs(syn).expect("syntax"));
                w.internal_create(vec![e])?;
            }
            XOp::AddClassType { k, must, may } => {
                let k = k % N_CCLASS;
                let mut e: pop::NewEntry = kanidmd_lib::entry::Entry::new();
                e.add_ava(Attribute::Class, EntryClass::Object.to_value());
                e.add_ava(Attribute::Class, EntryClass::ClassType.to_value());
                e.add_ava(Attribute::Uuid, Value::Uuid(schema_uuid(2, k)));
                e.add_ava(Attribute::ClassName, Value::new_iutf8(&cclass(k)));
                e.add_ava(Attribute::Description, Value::new_utf8s("c15 custom class"));
                for a in 0..N_CATTR {
                    if must & (1 << a) != 0 {
                        e.add_ava(Attribute::Must, Value::from(cattr(a)));
                    } else if may & (1 << a) != 0 {
                        e.add_ava(Attribute::May, Value::from(cattr(a)));
                    }
                }
                e.add_ava(Attribute::May, Value::from(Attribute::Description));
                w.internal_create(vec![e])?;
            }
            XOp::AddClass { t, k, with } => {
                let mut m = vec![Modify::Present(Attribute::Class, Value::new_iutf8(&cclass(*k)))];
                for (a, kind, i) in with {
                    m.push(Modify::Present(cattr(*a), cvalue(*kind, *i)));
                }
                modify(&mut w, t, m)?;
            }
            XOp::AddKnownClass { t, c } => modify(&mut w, t, vec![Modify::Present(Attribute::Class, Value::new_iutf8(CLASSES[*c as usize % CLASSES.len()]))])?,
            XOp::RemoveClass { t, c } => modify(
                &mut w,
                t,
                vec![Modify::Removed(Attribute::Class, PartialValue::new_iutf8(CLASSES[*c as usize % CLASSES.len()]))],
            )?,
            XOp::SetCustom { t, k, vals } => {
                let mut m = vec![Modify::Purged(cattr(*k))];
                for (kind, i) in vals {
                    m.push(Modify::Present(cattr(*k), cvalue(*kind, *i)));
                }
                modify(&mut w, t, m)?;
            }
            XOp::AddCustom { t, k, val } => modify(&mut w, t, vec![Modify::Present(cattr(*k), cvalue(val.0, val.1))])?,
            XOp::PurgeCustom { t, k } => modify(&mut w, t, vec![Modify::Purged(cattr(*k))])?,
            XOp::UnknownAttr { t } => modify(&mut w, t, vec![Modify::Present(Attribute::from("c15_no_such_attr"), Value::new_utf8s("x"))])?,
            XOp::WrongSyntax { t, which } => {
                let m = match which % 5 {
                    0 => Modify::Present(Attribute::DisplayName, Value::Uint32(7)),
                    1 => Modify::Present(Attribute::GidNumber, Value::new_utf8s("seven")),
                    2 => Modify::Present(Attribute::Mail, Value::new_utf8s("not-an-email")),
                    3 => Modify::Present(Attribute::Member, Value::Uuid(t.uuid())),
                    _ => Modify::Present(Attribute::Name, Value::new_utf8s("Not An Iname@x")),
                };
                modify(&mut w, t, vec![m])?;
            }
            XOp::PurgeMust { t, which } => {
                let a = match which % 4 {
                    0 => Attribute::DisplayName,
                    1 => Attribute::Spn,
                    2 => Attribute::Class,
                    _ => Attribute::Uuid,
                };
                modify(&mut w, t, vec![Modify::Purged(a)])?;
            }
            XOp::CreateBroken { i, how } => {
                let u = pop::uuid_of(pop::Kind::Other, 0x100 + *i as u32);
                let name = format!("c15broken{i}");
                let mut e = pop::person(u, &name);
                match how % 5 {
                    0 => e.remove_ava(Attribute::DisplayName),
                    1 => e.add_ava(Attribute::Class, Value::new_iutf8("c15_no_such_class")),
                    2 => e.add_ava(Attribute::from("c15_no_such_attr"), Value::new_utf8s("x")),
                    3 => e.add_ava(Attribute::DisplayName, Value::new_utf8s("second display name")),
                    _ => e.add_ava(Attribute::Member, Value::Refer(u)), // attribute of a class it does not have
                }
                w.internal_create(vec![e])?;
            }
            XOp::CreateExtensible { i, phantom } => {
                let u = pop::uuid_of(pop::Kind::Other, 0x200 + *i as u32);
                let mut e: pop::NewEntry = kanidmd_lib::entry::Entry::new();
                e.add_ava(Attribute::Class, EntryClass::Object.to_value());
                e.add_ava(Attribute::Class, EntryClass::ExtensibleObject.to_value());
                e.add_ava(Attribute::Uuid, Value::Uuid(u));
                e.add_ava(Attribute::Description, Value::new_utf8s("anything goes"));
                e.add_ava(Attribute::GidNumber, Value::Uint32(70000 + *i as u32));
                if *phantom {
                    e.add_ava(Attribute::from("cn"), Value::new_utf8s("phantom value"));
                }
                w.internal_create(vec![e])?;
            }
        }
        w.commit()?;
        node.clock += 1;
        Ok(())
    })
}

fn touches_custom(op: &XOp) -> bool {
    matches!(op, XOp::AddClass { .. } | XOp::SetCustom { .. } | XOp::AddCustom { .. } | XOp::PurgeCustom { .. })
}
fn is_schema_def(op: &XOp) -> bool {
    matches!(op, XOp::AddAttrType { .. } | XOp::AddClassType { .. })
}
fn is_illtyped(op: &XOp) -> bool {
    matches!(
        op,
        XOp::UnknownAttr { .. }
            | XOp::WrongSyntax { .. }
            | XOp::PurgeMust { .. }
            | XOp::CreateBroken { .. }
            | XOp::Base(Op::BadSingleMulti { .. } | Op::BadUnknownClass { .. } | Op::BadRemoveMust { .. })
    )
}

fn weights() -> Weights {
    Weights {
        create: 8,
        rename: 2,
        attr: 8,
        member: 3,
        manager: 1,
        oauth2: 1,
        dyngroup: 0,
        posix: 5,
        delete: 2,
        revive: 2,
        purge: 0,
        reindex: 0,
        advance: 0,
        domain_rename: 0,
        bad: 6,
        missing_refs: true,
        persons: 4,
        services: 2,
        groups: 4,
        ..Weights::default()
    }
}

fn arb_xop(w: &Weights, additions: u32) -> BoxedStrategy<XOp> {
    let any = ops::arb_ref(w, false, false);
    let k = 0u8..N_CATTR;
    let val = (prop_oneof![3 => Just(255u8), 1 => 0u8..4], 0u8..4);
    // 255 = "the kind that matches attribute k" (resolved below)
    let fix = |k: u8, (kind, i): (u8, u8)| if kind == 255 { (k % 4, i) } else { (kind, i) };
    let mut v: Vec<(u32, BoxedStrategy<XOp>)> = vec![
        (30, ops::arb_op(w).prop_map(XOp::Base).boxed()),
        (3, (any.clone(), 0u8..9).prop_map(|(t, c)| XOp::RemoveClass { t, c }).boxed()),
        (2, (any.clone(), 0u8..9).prop_map(|(t, c)| XOp::AddKnownClass { t, c }).boxed()),
        (2, any.clone().prop_map(|t| XOp::UnknownAttr { t }).boxed()),
        (3, (any.clone(), 0u8..5).prop_map(|(t, which)| XOp::WrongSyntax { t, which }).boxed()),
        (2, (any.clone(), 0u8..4).prop_map(|(t, which)| XOp::PurgeMust { t, which }).boxed()),
        (2, (0u8..4, 0u8..5).prop_map(|(i, how)| XOp::CreateBroken { i, how }).boxed()),
        (1, (0u8..3, proptest::bool::weighted(0.3)).prop_map(|(i, phantom)| XOp::CreateExtensible { i, phantom }).boxed()),
    ];
    if additions > 0 {
        v.push((additions, k.clone().prop_map(|k| XOp::AddAttrType { k }).boxed()));
        v.push((additions, (0..N_CCLASS, 0u8..4, 0u8..16).prop_map(|(k, must, may)| XOp::AddClassType { k, must, may }).boxed()));
        v.push((
            additions * 2,
            (any.clone(), 0..N_CCLASS, proptest::collection::vec((k.clone(), val.clone()), 0..3))
                .prop_map(move |(t, k, with)| {
                    let mut with: Vec<(u8, u8, u8)> = with.into_iter().map(|(a, v)| { let (kind, i) = fix(a, v); (a, kind, i) }).collect();
                    // class 0 requires attribute 0: supply it unless the generated list says otherwise
                    if k == 0 && with.len() != 1 && !with.iter().any(|(a, _, _)| *a == 0) {
                        with.push((0, 0, 1));
                    }
                    XOp::AddClass { t, k, with }
                })
                .boxed(),
        ));
        v.push((
            additions * 2,
            (any.clone(), k.clone(), proptest::collection::vec(val.clone(), 0..3))
                .prop_map(move |(t, k, vals)| XOp::SetCustom { t, k, vals: vals.into_iter().map(|v| fix(k, v)).collect() })
                .boxed(),
        ));
        v.push((additions, (any.clone(), k.clone(), val).prop_map(move |(t, k, v)| XOp::AddCustom { t, k, val: fix(k, v) }).boxed()));
        v.push((1, (any, k).prop_map(|(t, k)| XOp::PurgeCustom { t, k }).boxed()));
    }
    proptest::strategy::Union::new_weighted(v).boxed()
}

fn arb_case(w: &Weights, additions: u32, len: std::ops::Range<usize>) -> BoxedStrategy<Case> {
    // schema definitions early (each with probability 0.85, attributes before classes), so that
    // later ops can use them; class 0 requires custom attribute 0, class 1 requires nothing
    let defs = if additions > 0 {
        (proptest::collection::vec(proptest::bool::weighted(0.85), 6), 0u8..16, 0u8..16)
            .prop_map(|(on, may0, may1)| {
                let mut v = Vec::new();
                for k in 0..N_CATTR {
                    if on[k as usize] {
                        v.push(XOp::AddAttrType { k });
                    }
                }
                if on[4] {
                    v.push(XOp::AddClassType { k: 0, must: 1, may: may0 | 2 });
                }
                if on[5] {
                    v.push(XOp::AddClassType { k: 1, must: 0, may: may1 | 4 });
                }
                v
            })
            .boxed()
    } else {
        Just(Vec::new()).boxed()
    };
    (ops::arb_prefix(w), defs, proptest::collection::vec(arb_xop(w, additions), len))
        .prop_map(|(p, mut d, mut o)| {
            let mut ops: Vec<XOp> = p.into_iter().map(XOp::Base).collect();
            ops.append(&mut d);
            ops.append(&mut o);
            Case { ops }
        })
        .boxed()
}

#[derive(Clone, Copy, PartialEq)]
enum Mode {
    /// domain level 14: schema read from the stored attributetype/classtype entries
    Dl14,
    /// target level: schema definitions read from the loaded schema tables
    Target,
}

fn single(rt: &tokio::runtime::Runtime, c: &Case, mode: Mode) -> Outcome {
    let mut log = CaseLog::new();
    rt.block_on(async {
        let qs = match mode {
            Mode::Dl14 => srv::new_qs_at(None, 1, DOMAIN_LEVEL_14).await,
            Mode::Target => srv::new_qs().await,
        };
        let mut node = Node { qs, clock: 10 };
        let mem_schema = if mode == Mode::Target { Some(gi::schema_from_memory(&node).await) } else { None };
        let (mut defs_ok, mut custom_ok, mut ill_rejected, mut ill_accepted, mut rejected) = (0, 0, 0, 0, 0);
        let mut after_addition_ok = 0;
        let stats = gi::run_hist(&mut node, &c.ops, &mut log, true, apply_x, |a, log| {
            if matches!(a.op, XOp::Base(Op::Advance { .. })) {
                return;
            }
            if a.committed() {
                if is_schema_def(a.op) {
                    defs_ok += 1;
                } else if touches_custom(a.op) && mode == Mode::Dl14 {
                    // did a custom class/attribute really land on a live entry?
                    let on_entry = a.entries.iter().any(|e| {
                        status_of(e) == Status::Live
                            && (e.get_ava_names().any(|n| n.starts_with("c15attr"))
                                || vf_world::dump::proto_values(e, Attribute::Class).iter().any(|c| c.starts_with("c15class")))
                    });
                    if on_entry {
                        custom_ok += 1;
                    }
                }
                if defs_ok > 0 && !is_schema_def(a.op) {
                    after_addition_ok += 1;
                }
                if is_illtyped(a.op) {
                    ill_accepted += 1;
                }
            } else {
                rejected += 1;
                if is_illtyped(a.op) {
                    ill_rejected += 1;
                }
            }
            let stored;
            let schema = match &mem_schema {
                Some(s) => s,
                None => {
                    stored = gi::stored_schema(a.entries);
                    &stored
                }
            };
            if schema.attrs.len() < 100 || schema.classes.len() < 30 {
                log.fail("harness: schema definitions not found", format!("{} attrs {} classes", schema.attrs.len(), schema.classes.len()));
                return;
            }
            let v = gi::schema_violations(a.entries, schema);
            if let Some(first) = v.first() {
                log.fail(gi::SIG_SCHEMA, format!("after step {} {:?} -> {:?}: {first} ({} in total)", a.step, a.op, a.res, v.len()));
            }
        })
        .await;
        if defs_ok > 0 {
            log.class("schema-definition-added");
        }
        if custom_ok > 0 {
            log.class("custom-class-or-attr-on-entry");
        }
        if ill_rejected > 0 {
            log.class("ill-typed-request-rejected");
        }
        if ill_accepted > 0 {
            // e.g. purging a MUST that a plugin regenerates (spn), removing a class nobody needs
            log.class("ill-typed-looking-request-accepted(state still valid)");
        }
        log.class(format!("committed:{}", (stats.committed / 10) * 10));
        let nt = match mode {
            Mode::Dl14 => rejected > 0 && custom_ok > 0 && after_addition_ok > 0,
            Mode::Target => ill_rejected > 0 && stats.committed >= 5,
        };
        if nt {
            log.nontrivial();
        }
    });
    log.finish()
}

fn replicated(rt: &tokio::runtime::Runtime, c: &RCase) -> Outcome {
    let mut log = CaseLog::new();
    rt.block_on(async {
        let mut cl = Cluster::new(2).await;
        let schema = gi::schema_from_memory(&cl.nodes[0]).await;
        let mut applied = 0;
        let mut both = [0usize; 2];
        for (i, s) in c.steps.iter().enumerate() {
            gi::untie_clocks(&mut cl);
            let node = match s {
                RStep::Do { r, op } => {
                    let n = *r as usize % 2;
                    if apply_x(&mut cl.nodes[n], op).await.is_ok() {
                        both[n] += 1;
                        Some(n)
                    } else {
                        None
                    }
                }
                RStep::Repl { from, to } => {
                    let (f, t) = (*from as usize % 2, *to as usize % 2);
                    if f != t && cl.replicate(f, t).await == ReplResult::Applied {
                        applied += 1;
                        Some(t)
                    } else {
                        None
                    }
                }
            };
            if let Some(n) = node {
                let entries = gi::read_all(&cl.nodes[n]).await;
                let v = gi::schema_violations(&entries, &schema);
                if let Some(first) = v.first() {
                    log.fail(gi::SIG_SCHEMA, format!("replica {n} after step {i} {s:?}: {first} ({} in total)", v.len()));
                    break;
                }
                if entries.iter().any(|e| status_of(e) == Status::Conflict) {
                    log.class("merge-parked-a-conflict-entry");
                }
            }
        }
        if applied > 0 && both[0] > 0 && both[1] > 0 {
            log.nontrivial();
            log.class("merged-edits-from-both-replicas");
        }
    });
    log.finish()
}

fn main() {
    let cx = Check::from_args("C15", "exploration");
    cx.rule(
        "op histories on real servers, the harness's own schema checker over ALL live entries after EVERY op (classes defined, supplements/excludes, every MUST present, only attributes in must/may of the entry's classes — any defined non-phantom attribute for extensibleobject —, single-valued => one value, value-set syntax tag == attribute syntax, own predicates for iname/iutf8/bool/uint32/email/spn values); rejected ops must leave the dump unchanged. \
         (1) domain level 14, schema read from the stored attributetype/classtype ENTRIES: histories define up to 4 custom attributes and 2 custom classes (must/may masks), put them on entries with right and wrong value types, interleaved with (2); \
         (2) target level: creates/modifies with ill-typed values, unknown attributes/classes, purged MUST, second value on single-valued attributes, class removal/addition that orphans attributes, broken creates, extensibleobject incl. phantom attributes; \
         (3) two replicas at target level: the same edits on both sides merged by random incremental replication. \
         non-trivial = (1) >=1 rejected op AND a custom class/attribute really stored on an entry AND >=1 accepted non-definition op after a definition; (2) >=1 ill-typed request rejected and >=5 commits; (3) edits on both replicas and an applied change set. distinct by hash of the history",
    );
    cx.assume("run-time schema additions exist only below domain level 1.11 (from 1.11 on the schema is loaded from code and attributetype/classtype entries are ignored), so they are explored at level 14, the highest level that still honours them and the lowest this build can create");
    cx.assume("deleting or narrowing schema definitions in use is excluded, as the property says");
    let w = weights();
    let n1 = cx.tier.pick(260, 6_000);
    let len = cx.tier.pick(15..45usize, 30..120usize);
    cx.prop(
        "dl14-schema-additions",
        PropCfg::new(n1).shrink(200),
        || arb_case(&w, 4, len.clone()),
        srv::runtime,
        |rt, c| single(rt, c, Mode::Dl14),
    );
    let n2 = cx.tier.pick(260, 6_000);
    cx.prop(
        "target-level-histories",
        PropCfg::new(n2).shrink(200),
        || arb_case(&w, 0, len.clone()),
        srv::runtime,
        |rt, c| single(rt, c, Mode::Target),
    );
    let n3 = cx.tier.pick(100, 2_500);
    let len3 = cx.tier.pick(10..40usize, 20..90usize);
    cx.prop(
        "two-replica-merges",
        PropCfg::new(n3).shrink(200),
        || {
            let step = prop_oneof![
                10 => (0u8..2, arb_xop(&w, 0)).prop_map(|(r, op)| RStep::Do { r, op }),
                3 => (0u8..2).prop_map(|f| RStep::Repl { from: f, to: 1 - f }),
            ];
            (ops::arb_prefix(&w), proptest::collection::vec(step, len3.clone())).prop_map(|(p, mut b)| {
                let mut steps: Vec<RStep> = p.into_iter().map(|op| RStep::Do { r: 0, op: XOp::Base(op) }).collect();
                steps.push(RStep::Repl { from: 0, to: 1 });
                steps.append(&mut b);
                RCase { steps }
            })
        },
        srv::runtime,
        |rt, c| replicated(rt, c),
    );
    cx.require_class("schema-definition-added", 100);
    cx.require_class("custom-class-or-attr-on-entry", 60);
    cx.require_class("ill-typed-request-rejected", 300);
    cx.require_class("merged-edits-from-both-replicas", 40);
    cx.finish();
}
