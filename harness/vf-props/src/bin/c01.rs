//! C01 — Search returns exactly the matching entries, whatever is indexed.
//!
//! (a) backend level: generated entry sets × generated filters × generated index layouts
//!     (every attribute × index type independently on/off, slopes default or analysed, with and
//!     without filler entries) through the real Backend (create → commit → read txn → resolve →
//!     search / exists); oracle = harness boolean evaluator over the generated entries
//!     (NOT = complement), plus the same query under the all-unindexed and the all-indexed layout.
//! (b) server level: generated populations and filters through QueryServer search (schema
//!     validation, hidden-entry wrapper, resolve cache cold/warm, optimiser, ACP for internal/admin).
use kanidm_proto::internal::FsType;
use kanidmd_lib::be::{Backend, BackendConfig, BackendTransaction, Limits};
use kanidmd_lib::entry::Entry;
use kanidmd_lib::filter::FilterResolved;
use kanidmd_lib::prelude::*;
use kanidmd_lib::value::{IndexType, Value};
use kanidmd_lib::verif_hooks::export::{entry as hentry, filter as hfilter, IdxKey};
use kanidmd_lib::verif_hooks::ident;
use proptest::prelude::*;
use serde::{Deserialize, Serialize};
use std::collections::{BTreeMap, BTreeSet};
use std::sync::Arc;
use vf_core::{CaseLog, Check, Outcome, PropCfg};
use vf_world::fil::{self, Alphabet, MEntry, F};
use vf_world::ops::{self, Op, Weights};
use vf_world::pop::{self, Kind};
use vf_world::{dump, srv};

pub const SIG_ISOLATED_NOT: &str = "isolated NOT in optimised filter tree";

const NAMES: [&str; 4] = ["ga", "gab", "abg", "bga"];
const DESCS: [&str; 4] = ["Ga", "bag", "gab x", "Zed"];
const MAILS: [&str; 3] = ["ga@example.com", "bag@example.com", "Gab@Example.org"];
const GIDS: [&str; 3] = ["5", "7", "9"];
const CLASSES: [&str; 5] = ["object", "group", "person", "recycled", "tombstone"];
const ATTRS: [&str; 7] = ["name", "description", "mail", "gidnumber", "class", "member", "uuid"];
const ITYPES: [IndexType; 4] = [IndexType::Equality, IndexType::Presence, IndexType::SubString, IndexType::Ordering];

#[derive(Debug, Clone, Serialize, Deserialize)]
struct ESpec {
    name: Option<u8>,
    desc: Vec<u8>,
    mail: Vec<u8>,
    gid: Vec<u8>,
    classes: Vec<u8>,
    members: Vec<u8>,
}

#[derive(Debug, Clone, Serialize, Deserialize)]
struct Case {
    entries: Vec<ESpec>,
    /// 28 bits: ATTRS × ITYPES
    layout: Vec<bool>,
    filler: bool,
    analysed: bool,
    limits: u8,
    filter: F,
}

fn euuid(i: usize) -> Uuid {
    pop::uuid_of(Kind::Other, i as u32)
}

fn build_entries(c: &Case) -> Vec<(pop::NewEntry, MEntry)> {
    let mut out = Vec::new();
    let n = c.entries.len();
    let mut push = |i: usize, s: &ESpec| {
        let uuid = euuid(i);
        let mut e: pop::NewEntry = Entry::new();
        let mut m = MEntry {
            uuid,
            attrs: BTreeMap::new(),
        };
        let mut add = |a: &str, v: String| {
            m.attrs.entry(a.to_string()).or_default().insert(v);
        };
        e.add_ava(Attribute::Uuid, Value::Uuid(uuid));
        add("uuid", uuid.as_hyphenated().to_string());
        if let Some(nm) = s.name {
            let v = NAMES[nm as usize % NAMES.len()];
            e.add_ava(Attribute::Name, Value::new_iname(v));
            add("name", v.to_string());
        }
        for d in &s.desc {
            let v = DESCS[*d as usize % DESCS.len()];
            e.add_ava(Attribute::Description, Value::new_utf8s(v));
            add("description", v.to_string());
        }
        for d in &s.mail {
            let v = MAILS[*d as usize % MAILS.len()];
            e.add_ava(Attribute::Mail, Value::new_email_address_s(v).expect("mail"));
            add("mail", v.to_string());
        }
        for d in &s.gid {
            let v = GIDS[*d as usize % GIDS.len()];
            e.add_ava(Attribute::GidNumber, Value::Uint32(v.parse().unwrap()));
            add("gidnumber", v.to_string());
        }
        for d in &s.classes {
            let v = CLASSES[*d as usize % CLASSES.len()];
            e.add_ava(Attribute::Class, Value::new_iutf8(v));
            add("class", v.to_string());
        }
        for d in &s.members {
            if n > 0 {
                let t = euuid(*d as usize % n);
                e.add_ava(Attribute::Member, Value::Refer(t));
                add("member", t.as_hyphenated().to_string());
            }
        }
        out.push((e, m));
    };
    for (i, s) in c.entries.iter().enumerate() {
        push(i, s);
    }
    if c.filler {
        for j in 0..64usize {
            let s = ESpec {
                name: None,
                desc: if j % 3 == 0 { vec![(j % 4) as u8] } else { vec![] },
                mail: vec![],
                gid: if j % 5 == 0 { vec![(j % 3) as u8] } else { vec![] },
                classes: vec![0],
                members: vec![],
            };
            push(100 + j, &s);
        }
    }
    out
}

fn layout_keys(bits: &[bool]) -> Vec<IdxKey> {
    let mut v = Vec::new();
    for (ai, a) in ATTRS.iter().enumerate() {
        for (ti, t) in ITYPES.iter().enumerate() {
            if *bits.get(ai * 4 + ti).unwrap_or(&false) {
                v.push(IdxKey::new(Attribute::from(*a), *t));
            }
        }
    }
    v
}

/// An AndNot whose parent is not an And having at least one non-AndNot member.
fn has_isolated_not(f: &FilterResolved, parent_ok: bool) -> bool {
    match f {
        FilterResolved::AndNot(inner, _) => !parent_ok || has_isolated_not(inner, false),
        FilterResolved::And(l, _) => {
            let has_pos = l.iter().any(|x| !x.is_andnot());
            l.iter().any(|x| has_isolated_not(x, has_pos))
        }
        FilterResolved::Or(l, _) | FilterResolved::Inclusion(l, _) => l.iter().any(|x| has_isolated_not(x, false)),
        _ => false,
    }
}

fn limits_of(k: u8) -> Limits {
    match k % 4 {
        0 | 1 => Limits::unlimited(),
        2 => Limits {
            unindexed_allow: false,
            search_max_results: 6,
            search_max_filter_test: 8,
            filter_max_elements: 32,
        },
        _ => Limits {
            unindexed_allow: true,
            search_max_results: 3,
            search_max_filter_test: 4,
            filter_max_elements: 32,
        },
    }
}

struct Run {
    result: Result<BTreeSet<Uuid>, String>,
    exists: Result<bool, String>,
    isolated_not: bool,
    leaf_indexed: bool,
}

fn run_layout(c: &Case, keys: Vec<IdxKey>, entries: &[(pop::NewEntry, MEntry)], self_ident: &Identity) -> Result<Run, String> {
    let cfg = BackendConfig::new(None, 1, FsType::Generic, Some(2048));
    let be = Backend::new(cfg, keys.clone(), false).map_err(|e| format!("be new {e:?}"))?;
    let cid = ident::cid(Uuid::from_u128(1), Duration::from_secs(10));
    {
        let mut w = be.write().map_err(|e| format!("{e:?}"))?;
        if !entries.is_empty() {
            let v: Vec<_> = entries.iter().map(|(e, _)| hentry::sealed_new(e.clone(), cid.clone())).collect();
            w.create(&cid, v).map_err(|e| format!("create {e:?}"))?;
        }
        if c.analysed {
            // (immediate=false: the immediate mode prints progress to stdout)
            w.reindex(false).map_err(|e| format!("reindex {e:?}"))?;
            w.update_idxmeta(keys).map_err(|e| format!("update_idxmeta {e:?}"))?;
        }
        w.commit().map_err(|e| format!("commit {e:?}"))?;
    }
    let mut r = be.read().map_err(|e| format!("{e:?}"))?;
    let valid = hfilter::force_valid(hfilter::filter_invalid(c.filter.to_hfc()));
    let resolved = valid
        .resolve(self_ident, Some(r.get_idxmeta_ref()), None)
        .map_err(|e| format!("resolve {e:?}"))?;
    fn any_leaf_indexed(f: &FilterResolved) -> bool {
        match f {
            FilterResolved::Eq(_, _, i)
            | FilterResolved::Cnt(_, _, i)
            | FilterResolved::Stw(_, _, i)
            | FilterResolved::Enw(_, _, i)
            | FilterResolved::LessThan(_, _, i)
            | FilterResolved::Pres(_, i) => i.is_some(),
            FilterResolved::And(l, _) | FilterResolved::Or(l, _) | FilterResolved::Inclusion(l, _) => l.iter().any(any_leaf_indexed),
            FilterResolved::AndNot(x, _) => any_leaf_indexed(x),
            FilterResolved::Invalid(_) => false,
        }
    }
    let lim = limits_of(c.limits);
    let result = r
        .search(&lim, &resolved)
        .map(|v| v.iter().map(|e| e.get_uuid()).collect::<BTreeSet<_>>())
        .map_err(|e| format!("{e:?}"));
    let exists = r.exists(&lim, &resolved).map_err(|e| format!("{e:?}"));
    Ok(Run {
        result,
        exists,
        isolated_not: has_isolated_not(resolved.to_inner(), false),
        leaf_indexed: any_leaf_indexed(resolved.to_inner()),
    })
}

fn backend_case(c: &Case) -> Outcome {
    let entries = build_entries(c);
    let self_uuid = euuid(0);
    // identity for SelfUuid: entry 0's uuid
    let me = {
        let mut e: pop::NewEntry = Entry::new();
        e.add_ava(Attribute::Uuid, Value::Uuid(self_uuid));
        hentry::sealed_committed(e, ident::cid(Uuid::nil(), Duration::from_secs(1)), 1)
    };
    let idn = ident::user_readwrite(Arc::new(me));
    let want: BTreeSet<Uuid> = entries
        .iter()
        .filter(|(_, m)| fil::eval(&c.filter, m, Some(self_uuid)))
        .map(|(_, m)| m.uuid)
        .collect();
    let mut log = CaseLog::new();
    let layouts: [(&str, Vec<IdxKey>); 3] = [
        ("generated", layout_keys(&c.layout)),
        ("unindexed", vec![]),
        ("all-indexed", layout_keys(&[true; 28])),
    ];
    let mut any_leaf_indexed = false;
    let mut any_err = false;
    for (lname, keys) in layouts {
        let run = match run_layout(c, keys, &entries, &idn) {
            Ok(r) => r,
            Err(e) => {
                log.fail("backend setup failed", format!("layout {lname}: {e}"));
                break;
            }
        };
        any_leaf_indexed |= run.leaf_indexed;
        let sig = |base: &str| -> String {
            if run.isolated_not {
                SIG_ISOLATED_NOT.to_string()
            } else {
                base.to_string()
            }
        };
        match &run.result {
            Ok(got) => {
                if got != &want {
                    let missing: Vec<_> = want.difference(got).collect();
                    let extra: Vec<_> = got.difference(&want).collect();
                    log.fail(
                        sig("search result differs from reference evaluation"),
                        format!("filter {} layout {lname}: missing {missing:?} extra {extra:?}", c.filter.render()),
                    );
                }
            }
            Err(e) => {
                any_err = true;
                if !e.contains("ResourceLimit") {
                    log.fail("search failed with an unexpected error", format!("filter {} layout {lname}: {e}", c.filter.render()));
                }
            }
        }
        match &run.exists {
            Ok(b) => {
                if *b != !want.is_empty() {
                    log.fail(
                        sig("exists differs from reference evaluation"),
                        format!("filter {} layout {lname}: exists={b} reference matches {}", c.filter.render(), want.len()),
                    );
                }
            }
            Err(e) => {
                if !e.contains("ResourceLimit") {
                    log.fail("exists failed with an unexpected error", format!("filter {} layout {lname}: {e}", c.filter.render()));
                }
            }
        }
        if run.isolated_not {
            log.class("optimised-tree-has-isolated-not");
        }
    }
    let total = entries.len();
    if c.filter.has_connective() && !want.is_empty() && want.len() < total && any_leaf_indexed {
        log.nontrivial();
    }
    if any_err {
        log.class("resource-limit-error");
    }
    log.class(if c.filler { "with-filler" } else { "small-db" });
    log.class(if want.is_empty() {
        "matches-none"
    } else if want.len() == total {
        "matches-all"
    } else {
        "matches-some"
    });
    if c.filter.has_isolated_not() {
        log.class("ast-has-isolated-not");
    }
    log.finish()
}

fn arb_espec() -> impl Strategy<Value = ESpec> {
    (
        proptest::option::weighted(0.8, 0u8..4),
        proptest::collection::vec(0u8..4, 0..3),
        proptest::collection::vec(0u8..3, 0..3),
        proptest::collection::vec(0u8..3, 0..3),
        proptest::collection::vec(0u8..5, 0..3),
        proptest::collection::vec(0u8..12, 0..3),
    )
        .prop_map(|(name, desc, mail, gid, classes, members)| ESpec {
            name,
            desc,
            mail,
            gid,
            classes,
            members,
        })
}

fn alphabet() -> Alphabet {
    let u0 = euuid(0).as_hyphenated().to_string();
    let u1 = euuid(1).as_hyphenated().to_string();
    let u2 = euuid(2).as_hyphenated().to_string();
    let mut al = Alphabet::new(&[
        ("name", &NAMES),
        ("description", &DESCS),
        ("mail", &MAILS),
        ("gidnumber", &GIDS),
        ("class", &CLASSES),
    ]);
    al.attrs.push(("member".into(), vec![u0.clone(), u1.clone(), u2.clone()]));
    al.attrs.push(("uuid".into(), vec![u0, u1, u2]));
    al.self_uuid = true;
    al
}

/// Filters without an isolated NOT (the known finding) make up >= 85 % of the cases.
fn arb_case() -> impl Strategy<Value = Case> {
    let al = alphabet();
    let filt = fil::arb_filter(&al, 4, 4);
    let clean = filt.clone().prop_filter("no isolated NOT", |f| !f.has_isolated_not());
    let f = prop_oneof![17 => clean, 3 => filt];
    (
        proptest::collection::vec(arb_espec(), 0..=12),
        proptest::collection::vec(any::<bool>(), 28),
        proptest::bool::weighted(0.2),
        any::<bool>(),
        0u8..4,
        f,
    )
        .prop_map(|(entries, layout, filler, analysed, limits, filter)| Case {
            entries,
            layout,
            filler,
            analysed,
            limits,
            filter,
        })
}

// ------------------------------------------------------------------------------------------------
// (b) server level

#[derive(Debug, Clone, Serialize, Deserialize)]
struct SCase {
    ops: Vec<Op>,
    filters: Vec<F>,
    as_admin: bool,
}

fn server_alphabet() -> Alphabet {
    let names: Vec<&str> = ops::NAMES[..8].to_vec();
    let mut al = Alphabet::new(&[
        ("name", &names),
        ("description", &ops::DESCS),
        ("displayname", &ops::DESCS),
        ("mail", &ops::MAILS),
        ("gidnumber", &["70001", "70002", "80000"]),
        ("class", &["person", "group", "account", "object", "posixaccount", "recycled", "service_account"]),
    ]);
    let refs: Vec<String> = (0..4)
        .map(|i| ops::Ref::G(i).uuid().as_hyphenated().to_string())
        .chain((0..3).map(|i| ops::Ref::P(i).uuid().as_hyphenated().to_string()))
        .collect();
    al.attrs.push(("member".into(), refs.clone()));
    al.attrs.push(("memberof".into(), refs.clone()));
    al.attrs.push(("uuid".into(), refs));
    al.invalid = false;
    al
}

fn server_case(rt: &tokio::runtime::Runtime, c: &SCase) -> Outcome {
    let mut log = CaseLog::new();
    rt.block_on(async {
        let mut node = ops::Node::new().await;
        for op in &c.ops {
            let _ = ops::apply(&mut node, op).await;
        }
        // two rounds: cold then warm resolve cache (same read txn and a later one)
        for round in 0..2 {
            let mut r = node.qs.read().await.expect("read");
            let all = dump::all_entries(&mut r).expect("entries");
            let live: Vec<MEntry> = all
                .iter()
                .filter(|e| matches!(dump::status_of(e), dump::Status::Live | dump::Status::Conflict))
                .map(|e| MEntry::from_entry(e))
                .collect();
            let admin = r.internal_search_uuid(UUID_ADMIN).expect("admin");
            let idn = ident::user_readwrite(admin);
            for f in &c.filters {
                let Some(fc) = f.to_fc() else { continue };
                // the public path: new_ignore_hidden + schema validation + resolve (+cache) + optimise + backend
                let filt = Filter::new_ignore_hidden(fc);
                let res = if c.as_admin {
                    r.impersonate_search(filt.clone(), filt.clone(), &idn)
                } else {
                    r.internal_search(filt.clone())
                };
                let want: BTreeSet<Uuid> = live
                    .iter()
                    .filter(|m| fil::eval(f, m, Some(UUID_ADMIN)))
                    .map(|m| m.uuid)
                    .collect();
                match res {
                    Ok(got) => {
                        let got: BTreeSet<Uuid> = got.iter().map(|e| e.get_uuid()).collect();
                        // as admin, access controls may hide entries: one-directional (subset) there
                        let ok = if c.as_admin { got.is_subset(&want) } else { got == want };
                        if !ok {
                            let missing: Vec<_> = want.difference(&got).collect();
                            let extra: Vec<_> = got.difference(&want).collect();
                            let sig = if f.has_isolated_not() || matches!(f, F::Not(_)) {
                                SIG_ISOLATED_NOT
                            } else {
                                "server search result differs from reference evaluation"
                            };
                            log.fail(
                                sig,
                                format!("round {round} admin={} filter {}: missing {missing:?} extra {extra:?}", c.as_admin, f.render()),
                            );
                        }
                        if !want.is_empty() && want.len() < live.len() && f.has_connective() {
                            log.nontrivial();
                        }
                    }
                    Err(OperationError::SchemaViolation(_)) | Err(OperationError::ResourceLimit) => {
                        log.class("explicit-error");
                    }
                    Err(e) => {
                        log.fail("server search failed with an unexpected error", format!("filter {}: {e:?}", f.render()));
                    }
                }
            }
        }
    });
    log.class(if c.as_admin { "as-admin" } else { "as-internal" });
    log.finish()
}

fn main() {
    let cx = Check::from_args("C01", "exploration");
    cx.rule(
        "(a) backend: 0-12 generated entries (name/description/mail/gidnumber/class/member/uuid over 3-5 values each, incl. recycled/tombstone classes; optionally 64 filler entries) x filter trees of depth<=4/width<=4 \
         (Eq,Cnt,Stw,Enw,Pres,Lt,And,Or,Not,SelfUuid,Invalid; empty groups, duplicates, NOT under OR) x a generated 28-bit index layout (attribute x {eq,pres,sub,ord}), slopes default or analysed, 4 resource-limit settings; \
         each query also under the all-unindexed and all-indexed layouts; search and exists; oracle = harness boolean evaluator over the generated entries (NOT = complement); Err(ResourceLimit) is an allowed answer. \
         (b) server: generated populations (op histories) x generated filters through QueryServer search as internal and as admin, twice (cold/warm resolve cache). \
         non-trivial = filter has a connective AND the reference answer is neither empty nor everything AND some leaf is index-served; distinct by hash of (entries, layout, filter). \
         Filters whose OPTIMISED tree contains an isolated NOT are the listed known finding (kept to <=15% of cases and counted).",
    );
    cx.assume("leaf semantics of the reference evaluator are written from the documented attribute syntaxes");
    cx.assume("as admin the server-level oracle is one-directional (result ⊆ reference) because access controls may hide entries");
    let n = cx.tier.pick(6_000, 90_000);
    cx.prop("backend", PropCfg::new(n).shrink(1500), arb_case, || (), |_, c| backend_case(c));

    let w = Weights {
        persons: 3,
        services: 1,
        groups: 4,
        posix: 3,
        attr: 8,
        dyngroup: 0,
        oauth2: 0,
        bad: 0,
        ..Weights::default()
    };
    let sal = server_alphabet();
    let ns = cx.tier.pick(250, 3_000);
    cx.prop(
        "server",
        PropCfg::new(ns).shrink(200),
        || {
            let f = fil::arb_filter(&sal, 3, 3);
            let clean = f.clone().prop_filter("no isolated NOT", |f| !f.has_isolated_not() && !matches!(f, F::Not(_)));
            (
                ops::arb_history(&w, 4..16),
                proptest::collection::vec(prop_oneof![9 => clean, 1 => f], 4..10),
                any::<bool>(),
            )
                .prop_map(|(ops, filters, as_admin)| SCase { ops, filters, as_admin })
        },
        srv::runtime,
        |rt, c| server_case(rt, c),
    );
    cx.require_class("matches-some", 100);
    cx.finish();
}
