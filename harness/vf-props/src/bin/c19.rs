//! C19 — Unique values stay unique.
//!
//! Creates / renames / external-id assignments drawn from a tiny value pool on 1-3 real replicas:
//! duplicates inside one request, in separate transactions, and concurrently on different replicas,
//! explicit duplicate uuids, random incremental replication. Oracle (recomputed from the stored
//! entries, never asking the plugin): after every commit and every applied replication no two
//! stored entries share a uuid and no two LIVE entries share a value of any attribute the schema
//! marks unique; after a full mesh all replicas are equal (C08 comparison) and, in the partitioned
//! sub-check where the clash set is decidable, every entry involved in a cross-replica clash is in
//! conflict state on every replica.
use kanidmd_lib::modify::{Modify, ModifyList};
use kanidmd_lib::prelude::*;
use kanidmd_lib::schema::SchemaTransaction;
use kanidmd_lib::value::{PartialValue, Value};
use proptest::prelude::*;
use serde::{Deserialize, Serialize};
use std::collections::{BTreeMap, BTreeSet};
use vf_core::{CaseLog, Check, Outcome, PropCfg};
use vf_world::dump::{self, status_of, Status};
use vf_world::g_replx::{self as gx, rh};
use vf_world::ops::{self, Op, Ref};
use vf_world::pop;
use vf_world::repl::{Cluster, ReplResult};
use vf_world::srv;

const NNAMES: u8 = 3;
const NP: u8 = 3;
const NG: u8 = 3;

#[derive(Debug, Clone, PartialEq, Eq, Hash, Serialize, Deserialize)]
enum UOp {
    CreatePerson { i: u8, name: u8 },
    CreateGroup { i: u8, name: u8 },
    /// fresh server-chosen uuid
    CreateAnon { name: u8 },
    /// several entries in ONE create request: (is_person, index, name)
    Batch { items: Vec<(bool, u8, u8)> },
    Rename { t: Ref, name: u8 },
    /// several renames inside ONE transaction (separate modify requests)
    RenameTxn { items: Vec<(Ref, u8)> },
    /// mark as synchronised object with external id v (unique attribute sync_external_id)
    SetExtId { t: Ref, v: u8 },
    Delete { t: Ref },
    Revive { t: Ref },
    Advance { secs: u8 },
}

#[derive(Debug, Clone, PartialEq, Eq, Hash, Serialize, Deserialize)]
enum UStep {
    Do { r: u8, op: UOp },
    Repl { from: u8, to: u8 },
}

#[derive(Debug, Clone, PartialEq, Eq, Hash, Serialize, Deserialize)]
struct Case {
    replicas: u8,
    /// one global virtual time (see rh::History::synced)
    synced: bool,
    /// names of the prefix population on replica 0 (persons then groups); None = not created
    prefix: Vec<Option<u8>>,
    steps: Vec<UStep>,
}

fn arb_ref() -> BoxedStrategy<Ref> {
    prop_oneof![(0..NP).prop_map(Ref::P), (0..NG).prop_map(Ref::G)].boxed()
}

fn arb_op() -> BoxedStrategy<UOp> {
    let name = 0..NNAMES;
    prop_oneof![
        5 => (0..NP, name.clone()).prop_map(|(i, name)| UOp::CreatePerson { i, name }),
        5 => (0..NG, name.clone()).prop_map(|(i, name)| UOp::CreateGroup { i, name }),
        2 => name.clone().prop_map(|name| UOp::CreateAnon { name }),
        3 => proptest::collection::vec((any::<bool>(), 0..NP, name.clone()), 2..4).prop_map(|items| UOp::Batch { items }),
        8 => (arb_ref(), name.clone()).prop_map(|(t, name)| UOp::Rename { t, name }),
        2 => proptest::collection::vec((arb_ref(), name.clone()), 2..4).prop_map(|items| UOp::RenameTxn { items }),
        4 => (arb_ref(), 0u8..2).prop_map(|(t, v)| UOp::SetExtId { t, v }),
        2 => arb_ref().prop_map(|t| UOp::Delete { t }),
        2 => arb_ref().prop_map(|t| UOp::Revive { t }),
        1 => (1u8..60).prop_map(|secs| UOp::Advance { secs }),
    ]
    .boxed()
}

fn arb_prefix() -> BoxedStrategy<Vec<Option<u8>>> {
    // distinct names 3.. for the prefix (outside the clash pool is impossible with 3 names, so the
    // prefix uses pool names 3..9 which later renames can never produce, keeping the pool free)
    proptest::collection::vec(proptest::bool::weighted(0.6), (NP + NG) as usize)
        .prop_map(|on| on.into_iter().enumerate().map(|(i, b)| if b { Some(3 + i as u8) } else { None }).collect())
        .boxed()
}

fn arb_case(len: std::ops::Range<usize>, partitioned: bool) -> BoxedStrategy<Case> {
    prop_oneof![1 => Just(1u8), 3 => Just(2u8), 2 => Just(3u8)]
        .prop_flat_map(move |n| {
            let n = if partitioned { n.max(2) } else { n };
            let step = if partitioned || n == 1 {
                (0..n, arb_op()).prop_map(|(r, op)| UStep::Do { r, op }).boxed()
            } else {
                prop_oneof![
                    10 => (0..n, arb_op()).prop_map(|(r, op)| UStep::Do { r, op }),
                    4 => (0..n, 0..n).prop_map(|(from, to)| UStep::Repl { from, to }),
                ]
                .boxed()
            };
            (Just(n), arb_prefix(), proptest::collection::vec(step, len.clone()), proptest::bool::weighted(0.75))
        })
        // the decidable clash set assumes that a later write wins: only claimed on one global virtual time
        .prop_map(move |(replicas, prefix, steps, synced)| Case { replicas, synced: synced || partitioned, prefix, steps })
        .boxed()
}

fn name_of(i: u8) -> &'static str {
    ops::NAMES[i as usize % ops::NAMES.len()]
}
fn sync_uuid() -> Uuid {
    pop::uuid_of(pop::Kind::Sync, 0)
}

fn apply_in_txn(w: &mut QueryServerWriteTransaction<'_>, op: &UOp) -> Result<(), OperationError> {
    let live = |u: Uuid| Filter::new_ignore_hidden(f_eq(Attribute::Uuid, PartialValue::Uuid(u)));
    let rename = |w: &mut QueryServerWriteTransaction<'_>, t: &Ref, name: u8| {
        w.internal_modify(
            &live(t.uuid()),
            &ModifyList::new_list(vec![Modify::Purged(Attribute::Name), Modify::Present(Attribute::Name, Value::new_iname(name_of(name)))]),
        )
    };
    match op {
        UOp::CreatePerson { i, name } => w.internal_create(vec![pop::person(Ref::P(*i).uuid(), name_of(*name))]),
        UOp::CreateGroup { i, name } => w.internal_create(vec![pop::group(Ref::G(*i).uuid(), name_of(*name), &[])]),
        UOp::CreateAnon { name } => ops::apply_in_txn(w, &Op::CreateAnonGroup { name: *name }),
        UOp::Batch { items } => w.internal_create(
            items
                .iter()
                .map(|(person, i, name)| {
                    if *person {
                        pop::person(Ref::P(*i).uuid(), name_of(*name))
                    } else {
                        pop::group(Ref::G(*i % NG).uuid(), name_of(*name), &[])
                    }
                })
                .collect(),
        ),
        UOp::Rename { t, name } => rename(w, t, *name),
        UOp::RenameTxn { items } => {
            for (t, name) in items {
                rename(w, t, *name)?;
            }
            Ok(())
        }
        UOp::SetExtId { t, v } => w.internal_modify(
            &live(t.uuid()),
            &ModifyList::new_list(vec![
                Modify::Present(Attribute::Class, EntryClass::SyncObject.to_value()),
                Modify::Purged(Attribute::SyncParentUuid),
                Modify::Present(Attribute::SyncParentUuid, Value::Refer(sync_uuid())),
                Modify::Purged(Attribute::SyncExternalId),
                Modify::Present(Attribute::SyncExternalId, Value::new_iutf8(&format!("ext-{v}"))),
            ]),
        ),
        UOp::Delete { t } => ops::apply_in_txn(w, &Op::Delete { t: *t }),
        UOp::Revive { t } => ops::apply_in_txn(w, &Op::Revive { t: *t }),
        UOp::Advance { .. } => Ok(()),
    }
}

const SIG_UUID: &str = "two stored entries share a uuid";
const SIG_UNIQUE: &str = "two live entries share a value of a unique attribute";
const SIG_CLASH: &str = "an entry involved in a cross-replica uniqueness clash is still live after the full mesh";
const SIG_LOCAL_MARK: &str = "clash participant carries the conflict marker (classes conflict+recycled) on some replicas only, with equal class change ids (marker added locally without a change id)";
const SIG_APPLY: &str = "consumer failed to apply a supplied change set";

/// Independent scan. Returns discrepancies.
async fn scan(cl: &Cluster, i: usize) -> Vec<(&'static str, String)> {
    let mut r = cl.nodes[i].qs.read().await.expect("read");
    let uniq: Vec<Attribute> = r.get_schema().get_attributes_unique().to_vec();
    let ents = dump::all_entries(&mut r).expect("entries");
    let mut out = Vec::new();
    let mut uuids: BTreeMap<Uuid, usize> = BTreeMap::new();
    for e in &ents {
        *uuids.entry(e.get_uuid()).or_default() += 1;
    }
    for (u, c) in uuids {
        if c > 1 {
            out.push((SIG_UUID, format!("replica {i}: {c} stored entries with uuid {u}")));
        }
    }
    let mut seen: BTreeMap<(String, String), Uuid> = BTreeMap::new();
    for e in ents.iter().filter(|e| status_of(e) == Status::Live) {
        for a in &uniq {
            for v in dump::proto_values(e, a.clone()) {
                // unique attributes compare case-insensitively in every syntax used for them here
                let key = (a.to_string(), v.to_lowercase());
                if let Some(other) = seen.insert(key.clone(), e.get_uuid()) {
                    if other != e.get_uuid() {
                        out.push((SIG_UNIQUE, format!("replica {i}: {} = {:?} on live entries {other} and {}", key.0, key.1, e.get_uuid())));
                    }
                }
            }
        }
    }
    out
}

/// name / external id of the live population entries of a replica: uuid -> set of (attr, value)
async fn live_values(cl: &Cluster, i: usize) -> BTreeMap<Uuid, BTreeSet<(String, String)>> {
    let mut r = cl.nodes[i].qs.read().await.expect("read");
    let ents = dump::all_entries(&mut r).expect("entries");
    let mut m = BTreeMap::new();
    for e in ents.iter().filter(|e| status_of(e) == Status::Live) {
        let mut s = BTreeSet::new();
        for a in [Attribute::Name, Attribute::SyncExternalId] {
            for v in dump::proto_values(e, a.clone()) {
                s.insert((a.to_string(), v.to_lowercase()));
            }
        }
        m.insert(e.get_uuid(), s);
    }
    m
}

async fn run(c: &Case, partitioned: bool) -> Outcome {
    let n = c.replicas.clamp(1, 3) as usize;
    let mut cl = Cluster::new(n).await;
    let mut log = CaseLog::new();
    // prefix on replica 0
    {
        let now = cl.nodes[0].now();
        let mut w = cl.nodes[0].qs.write(now).await.expect("write");
        // a sync account so that entries can carry a (unique) external id
        let mut sa: pop::NewEntry = kanidmd_lib::entry::Entry::new();
        sa.add_ava(Attribute::Class, EntryClass::Object.to_value());
        sa.add_ava(Attribute::Class, EntryClass::SyncAccount.to_value());
        sa.add_ava(Attribute::Name, Value::new_iname("c19sync"));
        sa.add_ava(Attribute::Uuid, Value::Uuid(sync_uuid()));
        if let Err(e) = w.internal_create(vec![sa]) {
            return gx::harness_error("cannot create the sync account", format!("{e:?}"));
        }
        for (i, nm) in c.prefix.iter().enumerate() {
            if let Some(nm) = nm {
                let op = if (i as u8) < NP { UOp::CreatePerson { i: i as u8, name: *nm } } else { UOp::CreateGroup { i: i as u8 - NP, name: *nm } };
                if let Err(e) = apply_in_txn(&mut w, &op) {
                    return gx::harness_error("prefix create failed", format!("{op:?}: {e:?}"));
                }
            }
        }
        w.commit().expect("commit");
        cl.nodes[0].clock += 1;
    }
    for i in 1..n {
        if cl.replicate(0, i).await != ReplResult::Applied {
            return gx::harness_error("initial replication failed", String::new());
        }
    }
    let mut rejected_unique = 0;
    let mut rejected_other = 0;
    let mut committed = 0;
    let mut applied = 0;
    // partitioned sub-check: which replicas wrote (successfully) to which uuid
    let mut writers: BTreeMap<Uuid, BTreeSet<usize>> = BTreeMap::new();
    for (idx, s) in c.steps.iter().enumerate() {
        if c.synced {
            let r = match s {
                UStep::Do { r, .. } => *r as usize % n,
                UStep::Repl { to, .. } => *to as usize % n,
            };
            rh::sync_clock(&mut cl, r);
        }
        let touched = match s {
            UStep::Do { r, op } => {
                let rep = *r as usize % n;
                if let UOp::Advance { secs } = op {
                    cl.nodes[rep].clock += *secs as u64;
                    None
                } else {
                    let now = cl.nodes[rep].now();
                    let mut w = cl.nodes[rep].qs.write(now).await.expect("write");
                    let res = apply_in_txn(&mut w, op).and_then(|_| w.commit());
                    match res {
                        Ok(()) => {
                            cl.nodes[rep].clock += 1;
                            committed += 1;
                            let ts: Vec<Uuid> = match op {
                                UOp::CreatePerson { i, .. } => vec![Ref::P(*i).uuid()],
                                UOp::CreateGroup { i, .. } => vec![Ref::G(*i).uuid()],
                                UOp::Batch { items } => items.iter().map(|(p, i, _)| if *p { Ref::P(*i).uuid() } else { Ref::G(*i % NG).uuid() }).collect(),
                                UOp::Rename { t, .. } | UOp::SetExtId { t, .. } | UOp::Delete { t } | UOp::Revive { t } => vec![t.uuid()],
                                UOp::RenameTxn { items } => items.iter().map(|(t, _)| t.uuid()).collect(),
                                _ => vec![],
                            };
                            for u in ts {
                                writers.entry(u).or_default().insert(rep);
                            }
                            Some(rep)
                        }
                        Err(OperationError::AttributeUniqueness(_)) => {
                            rejected_unique += 1;
                            None
                        }
                        Err(OperationError::Plugin(_)) => {
                            // Base plugin: duplicate uuid in request / already exists
                            rejected_unique += 1;
                            None
                        }
                        Err(_) => {
                            rejected_other += 1;
                            None
                        }
                    }
                }
            }
            UStep::Repl { from, to } => {
                let (f, t) = (*from as usize % n, *to as usize % n);
                if f == t {
                    None
                } else {
                    match cl.replicate(f, t).await {
                        ReplResult::Applied => {
                            applied += 1;
                            Some(t)
                        }
                        ReplResult::ConsumerError(e) => {
                            log.fail(SIG_APPLY, format!("step {idx} {s:?}: {e}"));
                            None
                        }
                        _ => None,
                    }
                }
            }
        };
        if let Some(i) = touched {
            for (sig, msg) in scan(&cl, i).await {
                log.fail(sig, format!("after step {idx} {s:?}: {msg}"));
            }
        }
        if log.failed() {
            break;
        }
    }
    // decidable clash set (partitioned histories only): uuids written by exactly one replica keep
    // that replica's value; two of them on different replicas with an equal unique value clash.
    let mut must_conflict: BTreeSet<Uuid> = BTreeSet::new();
    if partitioned && n > 1 && !log.failed() {
        let mut owned: Vec<BTreeMap<Uuid, BTreeSet<(String, String)>>> = Vec::new();
        for i in 0..n {
            let lv = live_values(&cl, i).await;
            owned.push(lv.into_iter().filter(|(u, _)| writers.get(u).map(|w| w.len() == 1 && w.contains(&i)).unwrap_or(false)).collect());
        }
        // how many distinct live entries, cluster-wide, claim each value before the mesh
        let mut claims: BTreeMap<(String, String), BTreeSet<Uuid>> = BTreeMap::new();
        for i in 0..n {
            for (u, vals) in live_values(&cl, i).await {
                for v in vals {
                    claims.entry(v).or_default().insert(u);
                }
            }
        }
        let mut nway = false;
        for i in 0..n {
            for j in (i + 1)..n {
                for (u, vu) in &owned[i] {
                    for (v, vv) in &owned[j] {
                        if u == v {
                            continue;
                        }
                        let shared: Vec<_> = vu.intersection(vv).collect();
                        if shared.is_empty() {
                            continue;
                        }
                        // only PAIRWISE clashes are decidable: with three or more claimants the survivor depends on
                        // which pair meets first (an entry already parked as a conflict no longer clashes)
                        let pairwise = shared.iter().all(|val| claims.get(*val).map(|c| c.len() == 2).unwrap_or(false))
                            && vu.iter().chain(vv.iter()).all(|val| claims.get(val).map(|c| c.len() <= 2).unwrap_or(true));
                        if pairwise {
                            must_conflict.insert(*u);
                            must_conflict.insert(*v);
                        } else {
                            nway = true;
                        }
                    }
                }
            }
        }
        if nway {
            log.class("n-way-clash(no claim)");
        }
    }
    if n > 1 && !log.failed() {
        if c.synced {
            for i in 0..n {
                rh::sync_clock(&mut cl, i);
            }
        }
        let (quiet, results) = rh::mesh(&mut cl, 10, c.synced).await;
        for r in &results {
            if let ReplResult::ConsumerError(e) = r {
                log.fail(SIG_APPLY, format!("during the final mesh: {e}"));
            }
        }
        if results.iter().any(rh::is_refusal) {
            return Outcome::discard().class("discard:refusal-involved");
        }
        if !quiet {
            log.fail("replication does not quiesce within 10 full-mesh rounds (no refusal involved)", String::new());
        }
        let mut dumps = Vec::new();
        for i in 0..n {
            for (sig, msg) in scan(&cl, i).await {
                log.fail(sig, format!("after the full mesh: {msg}"));
            }
            dumps.push(cl.dump(i).await);
        }
        for u in &must_conflict {
            for (i, d) in dumps.iter().enumerate() {
                if d.get(u).map(|e| e.status) == Some(Status::Live) {
                    log.fail(SIG_CLASH, format!("uuid {u} (clash set {must_conflict:?}) is live on replica {i}"));
                }
            }
        }
        let skip = rh::non_replicated(&cl, &dumps).await;
        let diffs = rh::compare(&dumps, &skip);
        if std::env::var_os("VF_C19_DEBUG").is_some() {
            eprintln!("c19 debug: must_conflict={must_conflict:?} partitioned={partitioned}");
            for d in &diffs {
                eprintln!("c19 debug diff: {d:?}");
            }
            for (i, d) in dumps.iter().enumerate() {
                for (u, e) in d.iter() {
                    if u.to_string().starts_with("aaaa0000-0000-4000-8000-0003") {
                        eprintln!("c19 debug r{i} {u}: {:?}", e);
                    }
                }
            }
        }
        let (unexplained, stale_msg, stranded_msg, self_msg) = rh::split_stale_local(&cl, &dumps, &diffs).await;
        // Known finding: a clash participant carries the conflict marker (classes conflict + recycled) on some
        // replicas only, although the change id of `class` is the same everywhere - the marker is added locally
        // without a change id, so replicas that did not meet the clash themselves never learn of it.
        // Fingerprint per (replica pair, entry): equal class change ids, class sets differ exactly by
        // {conflict, recycled}, and the only differences are the status line and the class line.
        let all_unexplained = unexplained.clone();
        let local_mark = |i: usize, u: &str| -> bool {
            let Ok(uu) = u.parse::<Uuid>() else { return false };
            let (Some(a), Some(b)) = (dumps[0].get(&uu), dumps[i].get(&uu)) else { return false };
            if a.changes.get("class").is_none() || a.changes.get("class") != b.changes.get("class") {
                return false;
            }
            let ca: BTreeSet<&String> = a.attrs.get("class").map(|v| v.iter().collect()).unwrap_or_default();
            let cb: BTreeSet<&String> = b.attrs.get("class").map(|v| v.iter().collect()).unwrap_or_default();
            let sd: BTreeSet<String> = ca.symmetric_difference(&cb).map(|s| s.trim_matches('"').to_string()).collect();
            let want: BTreeSet<String> = ["conflict", "recycled"].iter().map(|s| s.to_string()).collect();
            sd == want
                && all_unexplained.iter().filter(|(j, l)| *j == i && l.starts_with(u)).all(|(_, l)| {
                    let rest = l.splitn(2, ": ").nth(1).unwrap_or("");
                    rest.starts_with("status ") || rest.starts_with("attr class:")
                })
        };
        let (marked, unexplained): (Vec<_>, Vec<_>) = unexplained.into_iter().partition(|(i, l)| local_mark(*i, l.split(": ").next().unwrap_or("")));
        if let Some((i, first)) = unexplained.first() {
            log.fail(
                "replicas differ after quiescence (uniqueness history)",
                format!("replica 0 vs {i}: {} differences, first unexplained: {first}", diffs.len()),
            );
        }
        if let Some((i, first)) = marked.first() {
            log.class("diverged:local-conflict-marker");
            log.fail(SIG_LOCAL_MARK, format!("replica 0 vs {i}: {first} ({} lines)", marked.len()));
        }
        if let Some(m) = self_msg {
            log.class("diverged:self-source-marker");
            log.fail(rh::SIG_SELF_SOURCE, m);
        }
        if let Some(m) = stranded_msg {
            log.class("diverged:stranded-merged-value");
            log.fail(rh::SIG_STRANDED_ATTR, m);
        }
        if let Some(m) = stale_msg {
            log.class("diverged:stale-local-write-kept");
            log.fail(rh::SIG_STALE_LOCAL, m);
        }
        if dumps[0].values().any(|e| e.status == Status::Conflict) {
            log.class("final-state-has-conflict-entries");
        }
    }
    log.class(format!("replicas-{n}"));
    log.class(if c.synced { "clocks:synchronised" } else { "clocks:skewed" });
    if rejected_unique > 0 {
        log.class("duplicate-rejected-locally");
    }
    if rejected_other > 0 {
        log.class("other-rejection");
    }
    if !must_conflict.is_empty() {
        log.class("cross-replica-clash-decidable");
    }
    if applied > 0 {
        log.class("replicated-change-applied");
    }
    if c.steps.iter().any(|s| matches!(s, UStep::Do { op: UOp::SetExtId { .. }, .. })) {
        log.class("has-external-id-op");
    }
    if (rejected_unique > 0 || !must_conflict.is_empty()) && committed >= 2 {
        log.nontrivial();
    }
    log.finish()
}

fn main() {
    let cx = Check::from_args("C19", "exploration");
    cx.rule(
        "random histories on 1-3 replicas: optional prefix population, then creates (fixed uuids so that duplicates occur, server-chosen uuids, several entries in one request), renames (single, several in one transaction), external-id assignments, delete/revive, \
         all values from pools of 3 names / 2 external ids, interleaved with random incremental replication; after every commit and every applied replication an independent scan of the stored entries demands: no two stored entries with one uuid, no two live entries sharing a value of any attribute the schema marks unique (list read from the schema); \
         after a full mesh: scan again, replicas equal (C08 comparison); second sub-check: partitioned histories (no replication until the mesh) where the clash set is decidable (uuids written by exactly one replica, equal unique value on different replicas): every such entry must be non-live on every replica. \
         non-trivial = at least one duplicate rejected locally or one decidable cross-replica clash, and >= 2 commits; distinct by hash of the history",
    );
    cx.assume("unique attributes are compared case-insensitively on their proto string form (name, spn, sync_external_id, attributename, classname are all case-insensitive syntaxes)");
    cx.assume("gidnumber is not marked unique by the schema and therefore not part of this property");
    let n = cx.tier.pick(260, 8_000);
    let len = cx.tier.pick(6..30usize, 10..60usize);
    cx.prop("histories", PropCfg::new(n).shrink(250), || arb_case(len.clone(), false), srv::runtime, |rt, c| rt.block_on(run(c, false)));
    let n2 = cx.tier.pick(260, 5_000);
    let len2 = cx.tier.pick(4..16usize, 6..30usize);
    cx.prop("partitioned-clash", PropCfg::new(n2).shrink(250), || arb_case(len2.clone(), true), srv::runtime, |rt, c| rt.block_on(run(c, true)));
    gx::fail_on_harness_errors(&cx);
    cx.require_class("duplicate-rejected-locally", 60);
    cx.require_class("cross-replica-clash-decidable", 20);
    cx.finish();
}
