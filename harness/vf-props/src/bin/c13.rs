//! C13 — Backup then restore reproduces the database.
//!
//! Random server-level histories on two replicas (credentials, sessions, recycled entries, tombstones,
//! conflicts), backup of replica 0 with and without compression, restore into a fresh backend exactly as
//! `restore_server_core` does, server start; oracle = canonical dump equality incl. change state, stored
//! ids (server uuid, domain uuid, ts_max, key handles), RUV, verify(), generated searches, next cid.
//! Negative: version-mutated and older envelopes are refused and leave a populated target unchanged.
use kanidmd_lib::modify::{Modify, ModifyList};
use kanidmd_lib::prelude::*;
use kanidmd_lib::value::PartialValue;
use kanidmd_lib::verif_hooks::export::State;
use kanidmd_lib::verif_hooks::repl as hrepl;
use kanidmd_lib::verif_hooks::storage as hk;
use proptest::prelude::*;
use serde::{Deserialize, Serialize};
use std::collections::{BTreeMap, BTreeSet};
use std::sync::atomic::{AtomicU64, Ordering};
use vf_core::{CaseLog, Check, Outcome, PropCfg};
use vf_world::dump::{self, DiffOpts, Dump, Status};
use vf_world::fil::{self, Alphabet, F};
use vf_world::g_storage::bak;
use vf_world::g_storage::val::{self, GCred, GSession, GV};
use vf_world::ops::{self, Node, Op, Ref, Weights};
use vf_world::repl::Cluster;
use vf_world::srv;

#[derive(Debug, Clone, PartialEq, Serialize, Deserialize)]
enum BOp {
    Base(Op),
    SetCred { p: u8, cred: GCred },
    AddSession { p: u8, id: u64, s: GSession },
    ApiToken { s: u8, tok: GV },
    /// create the replication key/certificate: the one thing the key-handle table stores
    ReplKey,
}

#[derive(Debug, Clone, PartialEq, Serialize, Deserialize)]
enum BStep {
    Do { r: u8, op: BOp },
    Repl { from: u8, to: u8 },
    Refresh { from: u8, to: u8 },
}

#[derive(Debug, Clone, Serialize, Deserialize)]
struct Case {
    steps: Vec<BStep>,
    filters: Vec<F>,
    /// which malformed envelope the negative part uses
    neg: u8,
}

fn live(u: Uuid) -> Filter<FilterInvalid> {
    Filter::new_ignore_hidden(f_eq(Attribute::Uuid, PartialValue::Uuid(u)))
}

fn apply_b(w: &mut QueryServerWriteTransaction<'_>, op: &BOp) -> Result<(), OperationError> {
    match op {
        BOp::Base(o) => ops::apply_in_txn(w, o),
        BOp::SetCred { p, cred } => {
            let c = cred.build().ok_or(OperationError::InvalidValueState)?;
            w.internal_modify(
                &live(Ref::P(*p).uuid()),
                &ModifyList::new_list(vec![Modify::Purged(Attribute::PrimaryCredential), Modify::Present(Attribute::PrimaryCredential, Value::new_credential("primary", c))]),
            )
        }
        BOp::AddSession { p, id, s } => {
            let v = GV::Session { id: *id, s: s.clone() }.build().ok_or(OperationError::InvalidValueState)?;
            w.internal_modify(&live(Ref::P(*p).uuid()), &ModifyList::new_list(vec![Modify::Present(Attribute::UserAuthTokenSession, v)]))
        }
        BOp::ReplKey => w.supplier_get_key_cert(srv::DOMAIN).map(|_| ()),
        BOp::ApiToken { s, tok } => {
            let v = tok.build().ok_or(OperationError::InvalidValueState)?;
            w.internal_modify(&live(Ref::S(*s).uuid()), &ModifyList::new_list(vec![Modify::Present(Attribute::ApiTokenSession, v)]))
        }
    }
}

async fn apply(node: &mut Node, op: &BOp) -> Result<(), OperationError> {
    if let BOp::Base(Op::Advance { secs }) = op {
        node.clock += *secs as u64;
        return Ok(());
    }
    let mut w = node.qs.write(node.now()).await?;
    apply_b(&mut w, op)?;
    w.commit()?;
    node.clock += 1;
    Ok(())
}

fn weights() -> Weights {
    Weights {
        create: 8,
        rename: 3,
        attr: 5,
        member: 5,
        manager: 1,
        oauth2: 2,
        dyngroup: 1,
        posix: 2,
        delete: 6,
        revive: 2,
        purge: 3,
        reindex: 1,
        advance: 3,
        domain_rename: 0,
        bad: 1,
        persons: 4,
        services: 2,
        groups: 5,
        ..Weights::default()
    }
}

fn arb_steps(w: &Weights, len: std::ops::Range<usize>) -> BoxedStrategy<Vec<BStep>> {
    const DAY8: u32 = 8 * 86_400;
    let persons = w.persons.max(1);
    let groups = w.groups.max(1);
    let t = ops::arb_ref(w, false, false);
    let sess = val::gv_of_kind(28).prop_map(|v| match v {
        GV::Session { id, s } => (id, s),
        _ => unreachable!(),
    });
    let bop = prop_oneof![
        30 => ops::arb_op(w).prop_map(BOp::Base),
        5 => (0..persons, val::gcred()).prop_map(|(p, cred)| BOp::SetCred { p, cred }),
        3 => (0..persons, sess).prop_map(|(p, (id, s))| BOp::AddSession { p, id, s }),
        2 => (0..w.services.max(1), val::gv_of_kind(29)).prop_map(|(s, tok)| BOp::ApiToken { s, tok }),
    ];
    let pair = (0u8..2, 0u8..2).prop_filter_map("distinct", |(a, b)| if a != b { Some((a, b)) } else { None });
    let conflict = (any::<bool>(), 0u8..16, 0u8..16, 0u8..8, any::<bool>()).prop_map(move |(person, n0, n1, i, first0)| {
        let mk = |name: u8| {
            if person {
                // indices outside the prefix population, so that both independent creates succeed
                Op::CreatePerson { i: persons + i % (ops::N_PERSON - persons).max(1), name }
            } else {
                Op::CreateGroup { i: groups + i % (ops::N_GROUP - groups).max(1), name, members: vec![] }
            }
        };
        let (a, b) = if first0 { (0u8, 1u8) } else { (1, 0) };
        vec![
            BStep::Do { r: a, op: BOp::Base(mk(n0)) },
            BStep::Do { r: b, op: BOp::Base(mk(n1)) },
            BStep::Repl { from: 1, to: 0 },
            BStep::Repl { from: 0, to: 1 },
            BStep::Repl { from: 1, to: 0 },
        ]
    });
    // delete -> recycled -> tombstone on replica 0
    let bury = (t.clone(), any::<bool>()).prop_map(|(t, reap)| {
        let mut v = vec![
            BStep::Do { r: 0, op: BOp::Base(Op::Delete { t }) },
            BStep::Do { r: 0, op: BOp::Base(Op::Advance { secs: DAY8 }) },
            BStep::Do { r: 0, op: BOp::Base(Op::PurgeRecycled) },
        ];
        if reap {
            v.push(BStep::Do { r: 0, op: BOp::Base(Op::Advance { secs: DAY8 }) });
            v.push(BStep::Do { r: 0, op: BOp::Base(Op::PurgeTombstones) });
        }
        v
    });
    let step = prop_oneof![
        30 => (prop_oneof![4 => Just(0u8), 1 => Just(1u8)], bop).prop_map(|(r, op)| vec![BStep::Do { r, op }]),
        6 => pair.prop_map(|(from, to)| vec![BStep::Repl { from, to }]),
        6 => conflict,
        4 => bury,
        2 => t.prop_map(|t| vec![BStep::Do { r: 0, op: BOp::Base(Op::Delete { t }) }]),
    ];
    let t2 = ops::arb_ref(w, false, false);
    let tail = proptest::option::weighted(0.85, (proptest::collection::vec(t2.clone(), 2), proptest::collection::vec(t2, 3)));
    // a conflict entry originated by replica 0 right before the backup (names 12..15 are rarely taken)
    let endconf = proptest::option::weighted(0.5, (any::<bool>(), 0u8..8, 12u8..16, 12u8..16));
    let creds = proptest::collection::vec(proptest::option::weighted(0.8, val::gcred()), persons as usize);
    (ops::arb_prefix(w), creds, proptest::collection::vec(step, len), tail, endconf, proptest::bool::weighted(0.7))
        .prop_map(move |(p, creds, body, tail, endconf, replkey)| {
            let mut out: Vec<BStep> = p.into_iter().map(|op| BStep::Do { r: 0, op: BOp::Base(op) }).collect();
            if replkey {
                out.push(BStep::Do { r: 0, op: BOp::ReplKey });
            }
            for (i, c) in creds.into_iter().enumerate() {
                if let Some(cred) = c {
                    out.push(BStep::Do { r: 0, op: BOp::SetCred { p: i as u8, cred } });
                }
            }
            out.push(BStep::Repl { from: 0, to: 1 });
            out.extend(body.into_iter().flatten());
            // leave both a tombstone and a recycled entry behind
            if let Some((a, b)) = tail {
                for t in a {
                    out.push(BStep::Do { r: 0, op: BOp::Base(Op::Delete { t }) });
                }
                out.push(BStep::Do { r: 0, op: BOp::Base(Op::Advance { secs: DAY8 }) });
                out.push(BStep::Do { r: 0, op: BOp::Base(Op::PurgeRecycled) });
                for t in b {
                    out.push(BStep::Do { r: 0, op: BOp::Base(Op::Delete { t }) });
                }
            }
            if let Some((person, i, n0, n1)) = endconf {
                let mk = |name: u8| {
                    if person {
                        Op::CreatePerson { i: persons + i % (ops::N_PERSON - persons).max(1), name }
                    } else {
                        Op::CreateGroup { i: groups + i % (ops::N_GROUP - groups).max(1), name, members: vec![] }
                    }
                };
                out.push(BStep::Refresh { from: 0, to: 1 });
                out.push(BStep::Do { r: 1, op: BOp::Base(mk(n1)) });
                out.push(BStep::Do { r: 0, op: BOp::Base(mk(n0)) });
                out.push(BStep::Repl { from: 1, to: 0 });
            }
            out
        })
        .boxed()
}

fn alphabet() -> Alphabet {
    let uu: Vec<String> = (0..4).map(|i| Ref::P(i).uuid().to_string()).chain((0..5).map(|i| Ref::G(i).uuid().to_string())).collect();
    let uur: Vec<&str> = uu.iter().map(|s| s.as_str()).collect();
    let gids: Vec<String> = ops::GIDS.iter().map(|g| g.to_string()).collect();
    let gidr: Vec<&str> = gids.iter().map(|s| s.as_str()).collect();
    let mut al = Alphabet::new(&[
        ("name", &ops::NAMES),
        ("class", &["person", "group", "account", "service_account", "recycled", "tombstone", "conflict", "posixaccount", "object", "dyngroup"]),
        ("description", &ops::DESCS),
        ("displayname", &ops::DESCS),
        ("mail", &ops::MAILS),
        ("gidnumber", &gidr),
        ("member", &uur),
        ("memberof", &uur),
        ("uuid", &uur),
    ]);
    al.invalid = true;
    al
}

fn search(r: &mut QueryServerReadTransaction<'_>, f: &F, hidden: bool) -> Result<BTreeSet<Uuid>, String> {
    let fc = f.to_fc().ok_or_else(|| "inexpressible".to_string())?;
    let filt = if hidden { Filter::new(fc) } else { Filter::new_ignore_hidden(fc) };
    r.internal_search(filt).map(|v| v.iter().map(|e| e.get_uuid()).collect()).map_err(|e| format!("{e:?}"))
}

/// The db encoding renders hash maps (TOTP factors, passkeys, backup codes of a credential ...) as
/// JSON arrays in iteration order, which differs between two loads of the same data. Arrays whose
/// elements are themselves structured (arrays / objects / strings) are therefore compared as
/// multisets; arrays of numbers (byte strings, timestamps) keep their order.
fn canon_json(v: serde_json::Value) -> serde_json::Value {
    use serde_json::Value as J;
    match v {
        J::Array(a) => {
            let mut a: Vec<J> = a.into_iter().map(canon_json).collect();
            if !a.is_empty() && a.iter().all(|x| !x.is_number()) {
                a.sort_by_key(|x| x.to_string());
            }
            J::Array(a)
        }
        J::Object(m) => J::Object(m.into_iter().map(|(k, v)| (k, canon_json(v))).collect()),
        other => other,
    }
}

fn canon_entry(mut e: dump::EntryDump) -> dump::EntryDump {
    for vals in e.attrs.values_mut() {
        for s in vals.iter_mut() {
            if let Ok(j) = serde_json::from_str::<serde_json::Value>(s) {
                *s = canon_json(j).to_string();
            }
        }
        vals.sort();
    }
    // an empty value set and an absent attribute are the same stored state (kanidm keeps emptied
    // sets in memory and drops them when an entry is loaded)
    e.attrs.retain(|_, v| !v.is_empty());
    e
}

fn facts_copy(f: &Facts) -> Facts {
    Facts {
        dump: f.dump.clone(),
        ids: f.ids.clone(),
        ruv: f.ruv.clone(),
        cids: f.cids.clone(),
        verify: f.verify.clone(),
        answers: f.answers.clone(),
        max_ts: f.max_ts,
    }
}

struct Facts {
    dump: Dump,
    ids: (Option<Uuid>, Option<Uuid>, Option<Duration>, String),
    ruv: BTreeMap<Uuid, (Duration, Duration)>,
    cids: Vec<String>,
    verify: BTreeSet<String>,
    answers: Vec<(Result<BTreeSet<Uuid>, String>, Result<BTreeSet<Uuid>, String>)>,
    max_ts: Duration,
}

async fn facts(qs: &QueryServer, filters: &[F]) -> Facts {
    facts_x(qs, filters, false).await
}

/// `light`: the server has not been initialised (schema not loaded): entries, ids and RUV only.
async fn facts_x(qs: &QueryServer, filters: &[F], light: bool) -> Facts {
    let mut r = qs.read().await.expect("read");
    let entries = dump::all_entries(&mut r).expect("entries");
    let d: Dump = entries.iter().map(|e| (e.get_uuid(), canon_entry(dump::dump_entry(e)))).collect();
    let ids = hk::be::db_ids(r.get_be_txn()).expect("db ids");
    let ruv = hrepl::current_ruv_range(&mut r).expect("ruv").into_iter().map(|(k, v)| (k, (v.ts_min, v.ts_max))).collect();
    let cid_list = hrepl::ruv_cids(&mut r);
    let mut max_ts = cid_list.iter().map(|c| c.ts).max().unwrap_or_default();
    for e in &entries {
        match e.get_changestate().current() {
            State::Live { at, changes } => {
                max_ts = max_ts.max(at.ts);
                for c in changes.values() {
                    max_ts = max_ts.max(c.ts);
                }
            }
            State::Tombstone { at } => max_ts = max_ts.max(at.ts),
        }
    }
    let cids = cid_list.iter().map(|c| format!("{c:?}")).collect();
    // entry ids are renumbered by a restore: keep the finding kind, drop the id
    let verify = if light {
        BTreeSet::new()
    } else {
        let mut m: BTreeMap<String, usize> = BTreeMap::new();
        // (idlset's `PartialEq` debug-asserts that the compared id lists are equal, so with debug
        // assertions on an RUV / allids mismatch found by verify() surfaces as a panic: record it as
        // a verify finding like any other)
        let out = std::panic::catch_unwind(std::panic::AssertUnwindSafe(|| hk::qs_verify(&mut r)));
        match out {
            Ok(list) => {
                for v in list {
                    *m.entry(v.split('(').next().unwrap_or("").to_string()).or_default() += 1;
                }
            }
            Err(_) => {
                m.insert("verify() panicked on an id-list mismatch (RUV or allids inconsistent)".into(), 1);
            }
        }
        m.into_iter().map(|(k, n)| format!("{k} x{n}")).collect()
    };
    let answers = if light { Vec::new() } else { filters.iter().map(|f| (search(&mut r, f, false), search(&mut r, f, true))).collect() };
    Facts {
        dump: d,
        ids,
        ruv,
        cids,
        verify,
        answers,
        max_ts,
    }
}

const NO_CIDS: DiffOpts<'static> = DiffOpts {
    skip_attrs: &["last_modified_cid"],
    ids: false,
    changestate: false,
};
const FULL: DiffOpts<'static> = DiffOpts {
    skip_attrs: &[],
    ids: false,
    changestate: true,
};

fn compare(log: &mut CaseLog, a: &Facts, b: &Facts, filters: &[F], what: &str, started: bool) {
    // A server start re-asserts the built-in entries in a write transaction of its own; its change
    // ids depend on what the process did before (QueryServer::new on a fresh process vs. a running
    // server), so for started servers the change ids are not compared (they are compared exactly on
    // the restored database before the start).
    let d = dump::diff(&a.dump, &b.dump, if started { &NO_CIDS } else { &FULL });
    if !d.is_empty() {
        log.fail(format!("entries differ after {what}"), format!("{} differences, first: {:?}", d.len(), &d[..d.len().min(5)]));
        return;
    }
    if a.ids.0 != b.ids.0 {
        log.fail(format!("server uuid differs after {what}"), format!("{:?} vs {:?}", a.ids.0, b.ids.0));
    }
    if a.ids.1 != b.ids.1 {
        log.fail(format!("domain uuid differs after {what}"), format!("{:?} vs {:?}", a.ids.1, b.ids.1));
    }
    // a started server has opened a write transaction (initialise_helper): ts_max may only have grown
    let ts_ok = if started { b.ids.2 >= a.ids.2 && b.ids.2.is_some() } else { a.ids.2 == b.ids.2 };
    if !ts_ok {
        log.fail(format!("maximum change time not preserved after {what}"), format!("{:?} vs {:?}", a.ids.2, b.ids.2));
    }
    if a.ids.3 != b.ids.3 {
        log.fail(format!("key handles differ after {what}"), format!("{} vs {}", a.ids.3.len(), b.ids.3.len()));
    }
    if !started {
        if a.ruv != b.ruv {
            log.fail(format!("RUV ranges differ after {what}"), format!("{:?} vs {:?}", a.ruv, b.ruv));
        }
        if a.cids != b.cids {
            let (x, y): (BTreeSet<_>, BTreeSet<_>) = (a.cids.iter().collect(), b.cids.iter().collect());
            log.fail(
                format!("RUV change ids differ after {what}"),
                format!("only original: {:?}; only restored: {:?}", x.difference(&y).take(4).collect::<Vec<_>>(), y.difference(&x).take(4).collect::<Vec<_>>()),
            );
        }
    } else {
        let (ka, kb): (BTreeSet<_>, BTreeSet<_>) = (a.ruv.keys().collect(), b.ruv.keys().collect());
        if ka != kb {
            log.fail(format!("RUV server set differs after {what}"), format!("{ka:?} vs {kb:?}"));
        }
    }
    // "passes the consistency check": whatever verify() says of the restored database it must
    // also have said of the original (a restore may heal, e.g. the RUV is rebuilt from the entries;
    // it must not add findings). What the original's verify() reports is other properties' business.
    let extra: Vec<&String> = b.verify.difference(&a.verify).collect();
    if !extra.is_empty() {
        log.fail(format!("verify() reports new findings after {what}"), format!("new: {extra:?}; original {:?}, restored {:?}", a.verify, b.verify));
    }
    for (i, (x, y)) in a.answers.iter().zip(b.answers.iter()).enumerate() {
        if x != y {
            log.fail(format!("a search answers differently after {what}"), format!("filter {}: original {:?}, restored {:?}", filters[i].render(), x, y));
            return;
        }
    }
}

static SCRATCH_N: AtomicU64 = AtomicU64::new(0);
fn scratch() -> std::path::PathBuf {
    let root = std::path::PathBuf::from(std::env::var("VERIF_ROOT").unwrap_or_else(|_| "/verif".into()));
    let dir = root.join("target").join("scratch");
    let _ = std::fs::create_dir_all(&dir);
    dir.join(format!("c13-{}-{}.db", std::process::id(), SCRATCH_N.fetch_add(1, Ordering::SeqCst)))
}
fn rm_db(p: &std::path::Path) {
    for suf in ["", "-wal", "-shm", "-journal"] {
        let _ = std::fs::remove_file(format!("{}{suf}", p.display()));
    }
}

/// Malformed / foreign envelopes derived from a good V5 backup (JSON text).
fn mutate_envelope(good: &[u8], neg: u8) -> (String, Vec<u8>, &'static str) {
    let mut v: serde_json::Value = serde_json::from_slice(good).expect("backup is json");
    let obj = v.as_object_mut().expect("v5 object");
    let (label, want): (&str, &'static str) = match neg % 7 {
        0 => {
            obj.insert("version".into(), serde_json::json!("0.0.0-other"));
            ("version: other series", "DB0001MismatchedRestoreVersion")
        }
        1 => {
            let cur = obj.get("version").and_then(|s| s.as_str()).unwrap_or("").to_string();
            obj.insert("version".into(), serde_json::json!(format!("{cur} ")));
            ("version: trailing space", "DB0001MismatchedRestoreVersion")
        }
        2 => {
            obj.insert("version".into(), serde_json::json!(""));
            ("version: empty", "DB0001MismatchedRestoreVersion")
        }
        3 => {
            obj.remove("version");
            ("V4 envelope", "DB0002MismatchedRestoreVersion")
        }
        4 => {
            obj.remove("version");
            obj.remove("repl_meta");
            ("V3 envelope", "DB0002MismatchedRestoreVersion")
        }
        5 => {
            obj.remove("version");
            obj.remove("repl_meta");
            obj.remove("keyhandles");
            ("V2 envelope", "DB0002MismatchedRestoreVersion")
        }
        _ => {
            let entries = obj.get("entries").cloned().unwrap_or(serde_json::json!([]));
            return ("V1 envelope".into(), serde_json::to_vec(&entries).expect("json"), "DB0002MismatchedRestoreVersion");
        }
    };
    (label.to_string(), serde_json::to_vec(&v).expect("json"), want)
}

fn run(rt: &tokio::runtime::Runtime, c: &Case) -> Outcome {
    let mut log = CaseLog::new();
    rt.block_on(async {
        let mut cl = Cluster::new(2).await;
        let mut committed = 0;
        for s in &c.steps {
            match s {
                BStep::Do { r, op } => {
                    let n = *r as usize % 2;
                    if apply(&mut cl.nodes[n], op).await.is_ok() && !matches!(op, BOp::Base(Op::Advance { .. })) {
                        committed += 1;
                    }
                }
                BStep::Repl { from, to } => {
                    let (f, t) = (*from as usize % 2, *to as usize % 2);
                    if f != t {
                        let _ = cl.replicate(f, t).await;
                    }
                }
                BStep::Refresh { from, to } => {
                    let (f, t) = (*from as usize % 2, *to as usize % 2);
                    if f != t {
                        let _ = cl.refresh(f, t).await;
                    }
                }
            }
            let m = cl.nodes.iter().map(|n| n.clock).max().unwrap_or(0);
            for nd in cl.nodes.iter_mut() {
                nd.clock = m;
            }
        }
        let orig = facts(&cl.nodes[0].qs, &c.filters).await;
        let n_ts = orig.dump.values().filter(|e| e.status == Status::Tombstone).count();
        let n_rc = orig.dump.values().filter(|e| e.status == Status::Recycled).count();
        let n_cf = orig.dump.values().filter(|e| e.status == Status::Conflict).count();
        let n_cred = orig.dump.values().filter(|e| e.uuid.as_u128() >> 112 == 0xAAAA && e.attrs.contains_key("primary_credential")).count();
        let n_sess = orig.dump.values().filter(|e| e.attrs.contains_key("user_auth_token_session") || e.attrs.contains_key("api_token_session")).count();
        if n_ts > 0 {
            log.class("backup-has-tombstone");
        }
        if n_rc > 0 {
            log.class("backup-has-recycled");
        }
        if n_cf > 0 {
            log.class("backup-has-conflict");
        }
        if n_cred > 0 {
            log.class("backup-has-credential");
        }
        if n_sess > 0 {
            log.class("backup-has-session");
        }
        if orig.ids.3.len() > 2 {
            log.class("backup-has-keyhandle");
        }
        if n_ts > 0 && n_rc > 0 && n_cred > 0 {
            log.nontrivial();
        }
        log.class(format!("committed:{}", (committed / 10) * 10));
        for v in &orig.verify {
            log.class(format!("original-verify:{}", v.split(" x").next().unwrap_or("")).chars().take(70).collect::<String>());
        }
        let distinct_answers = orig.answers.iter().filter(|(a, _)| a.as_ref().is_ok_and(|s| !s.is_empty())).count();
        if distinct_answers > 0 {
            log.class("search-with-nonempty-answer");
        }
        let now = cl.nodes[0].now();

        let mut backups: Vec<(bool, Vec<u8>)> = Vec::new();
        for gzip in [false, true] {
            let mut r = cl.nodes[0].qs.read().await.expect("read");
            match bak::backup(&mut r, gzip) {
                Ok(d) => backups.push((gzip, d)),
                Err(e) => {
                    log.fail("backup failed", format!("{e:?}"));
                    return;
                }
            }
        }
        let good_plain = backups[0].1.clone();
        // A server start re-asserts the built-in entries (initialise_helper), restored or not. The
        // started restored server is therefore compared with the original after the same start step.
        if let Err(e) = cl.nodes[0].qs.initialise_helper(now, DOMAIN_TGT_LEVEL).await {
            panic!("harness: original does not survive a restart step: {e:?}");
        }
        let orig_light = Facts {
            verify: BTreeSet::new(),
            answers: Vec::new(),
            ..facts_copy(&orig)
        };
        let orig_started = facts(&cl.nodes[0].qs, &c.filters).await;
        for (gzip, data) in backups {
            let what = if gzip { "gzip backup + restore" } else { "plain backup + restore" };
            // The restore tool and the server are different processes: restore into a database file,
            // close it, and open it again for the server (the RUV is rebuilt from the file at open).
            let path = scratch();
            let restored = (|| {
                let (be, _schema) = bak::file_backend(&path)?;
                bak::restore_into(&be, &data, gzip)
            })();
            if let Err(e) = restored {
                log.fail(format!("own backup refused ({what})"), format!("{e:?}"));
                rm_db(&path);
                return;
            }
            let (be, schema) = bak::file_backend(&path).expect("reopen restored database");
            // stored identifiers before any server touches the database
            {
                let mut br = be.read().expect("be read");
                let ids = hk::be::db_ids(&mut br).expect("ids");
                if ids != orig.ids {
                    log.fail(
                        format!("stored identifiers differ after {what}"),
                        format!("original {:?} {:?} {:?}, restored {:?} {:?} {:?}, key handles equal: {}", orig.ids.0, orig.ids.1, orig.ids.2, ids.0, ids.1, ids.2, ids.3 == orig.ids.3),
                    );
                    drop(br);
                    drop(be);
                    rm_db(&path);
                    return;
                }
            }
            // (a) the restored database as it is, before a server start changes anything
            {
                let (be_l, schema_l) = bak::file_backend(&path).expect("reopen restored database");
                let qs_l = QueryServer::new(be_l, schema_l, srv::DOMAIN.to_string(), now).expect("qs new");
                let light = facts_x(&qs_l, &[], true).await;
                compare(&mut log, &orig_light, &light, &[], what, false);
                drop(qs_l);
                if log.failed() {
                    drop(be);
                    rm_db(&path);
                    return;
                }
            }
            // (b) a server started on it behaves as the original does after the same start step
            let qs2 = match bak::start(be.clone(), schema, now).await {
                Ok(q) => q,
                Err(e) => {
                    log.fail(format!("server does not start on the restored database ({what})"), format!("{e:?}"));
                    drop(be);
                    rm_db(&path);
                    return;
                }
            };
            let rest = facts(&qs2, &c.filters).await;
            compare(&mut log, &orig_started, &rest, &c.filters, &format!("{what} + server start"), true);
            if log.failed() {
                drop(qs2);
                drop(be);
                rm_db(&path);
                return;
            }
            log.class(if gzip { "restored-gzip" } else { "restored-plain" });

            // --- negative: a refused envelope leaves this populated target as it was
            let (label, bad, want) = mutate_envelope(&good_plain, c.neg.wrapping_add(if gzip { 3 } else { 0 }));
            let mut bad_outcome: Option<(String, String)> = None;
            {
                let mut w = be.write().expect("be write");
                match w.restore(bad.as_slice(), bak::compression(false)) {
                    Ok(()) => bad_outcome = Some(("a foreign backup envelope is accepted".into(), label.clone())),
                    Err(e) => {
                        if format!("{e:?}") != want {
                            bad_outcome = Some(("a foreign backup envelope is refused with the wrong error".into(), format!("{label}: {e:?}, expected {want}")));
                        }
                    }
                }
                // dropped without commit
            }
            if let Some((sig, msg)) = bad_outcome {
                log.fail(sig, msg);
                drop(qs2);
                drop(be);
                rm_db(&path);
                return;
            }
            let after = facts(&qs2, &c.filters).await;
            compare(&mut log, &rest, &after, &c.filters, "a refused restore", false);
            drop(qs2);
            drop(be);
            if log.failed() {
                rm_db(&path);
                return;
            }
            log.class(format!("refused:{label}"));

            // --- ... also as observed through a restart
            let (be, schema) = bak::file_backend(&path).expect("reopen after refused restore");
            let qs3 = match bak::start(be, schema, now).await {
                Ok(q) => q,
                Err(e) => {
                    log.fail("server does not start after a refused restore", format!("{e:?}"));
                    rm_db(&path);
                    return;
                }
            };
            let f3 = facts(&qs3, &c.filters).await;
            compare(&mut log, &orig_started, &f3, &c.filters, "a refused restore and a restart", true);
            if log.failed() {
                drop(qs3);
                rm_db(&path);
                return;
            }
            log.class("refused-through-restart");

            // --- the restored server keeps issuing larger change ids, even with its clock set back
            {
                let mut w = qs3.write(srv::ct(1)).await.expect("write");
                let u = Uuid::from_u128(0xCCCC_0000_0000_4000_8000_0000_0000_0001);
                let r = w.internal_create(vec![vf_world::pop::group(u, "zz_after_restore", &[])]).and_then(|_| w.commit());
                if let Err(e) = r {
                    log.fail("restored server refuses a write", format!("{e:?}"));
                } else {
                    let mut r = qs3.read().await.expect("read");
                    let e = r.internal_search_uuid(u).expect("new entry");
                    let at = e.get_changestate().at().ts;
                    if at <= orig_started.max_ts {
                        log.fail("change id issued after restore is not greater than the restored ones", format!("new {at:?} <= restored max {:?}", orig_started.max_ts));
                    } else {
                        log.class("next-cid-checked");
                    }
                }
            }
            drop(qs3);
            rm_db(&path);
            if log.failed() {
                return;
            }
        }
    });
    log.finish()
}

fn main() {
    let cx = Check::from_args("C13", "exploration");
    cx.rule(
        "random histories on two replicas (population prefix + create/rename/attr/member edits, credentials of every password format with TOTP/backup codes, sessions, api tokens, delete, \
         recycle->tombstone->reap with clock jumps, conflicts from independent creates of one uuid, reindex); replica 0 is backed up with NoCompression and Gzip, each restored into a fresh backend \
         (restore+commit+reindex as restore_server_core; database file closed and reopened), a server is started on it, and compared with the original: canonical dump of every entry incl. change state, db_s_uuid / db_d_uuid / ts_max / key handles \
         (read before the server starts), RUV ranges and change ids, verify() output, 12 generated searches (with and without hidden entries), and the next change id (clock set back). Negative: 7 malformed \
         envelopes (3 version mutations, V4/V3/V2/V1) must be refused with the documented error and leave a populated target unchanged (seen in the same process and through a reopen of the database file). \
         non-trivial = backup holds >=1 tombstone, >=1 recycled entry and >=1 credential; distinct by hash of the case",
    );
    cx.assume("entry ids are renumbered by restore (documented) and are not compared; a started server may only have increased ts_max");
    let w = weights();
    let al = alphabet();
    let n = cx.tier.pick(200, 4_000);
    let len = cx.tier.pick(6..22usize, 20..100usize);
    cx.prop(
        "backup-restore",
        PropCfg::new(n).shrink(60),
        || {
            (arb_steps(&w, len.clone()), proptest::collection::vec(fil::arb_filter(&al, 3, 3), 12), 0u8..7).prop_map(|(steps, filters, neg)| Case {
                steps,
                filters,
                neg,
            })
        },
        srv::runtime,
        |rt, c| run(rt, c),
    );
    cx.require_class("backup-has-tombstone", 10);
    cx.require_class("backup-has-recycled", 10);
    cx.require_class("backup-has-credential", 20);
    cx.require_class("backup-has-conflict", 10);
    cx.require_class("backup-has-keyhandle", 30);
    cx.require_class("restored-gzip", 30);
    cx.require_class("restored-plain", 30);
    cx.require_class("next-cid-checked", 30);
    cx.require_class("refused-through-restart", 30);
    cx.finish();
}
