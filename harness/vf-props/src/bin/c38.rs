//! C38 — OAuth2 authorisation happens only on registered terms.
//!
//! For a generated client configuration and a batch of generated authorisation requests: whenever
//! an authorisation code comes out (directly, or after the consent step), the reference predicate
//! written from the property text must hold; and the scopes bound to the code (seen on the consent
//! screen and in the token response of a correct exchange) are exactly requested ∪ supplementary-held.
//! One-directional: refusals are never judged; a floor of issued codes keeps the run non-vacuous.
use kanidm_proto::oauth2::GrantTypeReq;
use proptest::prelude::*;
use serde::{Deserialize, Serialize};
use std::collections::BTreeSet;
use vf_core::{CaseLog, Check, Outcome, PropCfg};
use vf_world::g_proto::oa::{self, AuthOutcome, Cfg, ClientAuth, Pkce, Req, Who};
use vf_world::srv;

#[derive(Debug, Clone, Serialize, Deserialize)]
struct Case {
    cfg: Cfg,
    reqs: Vec<Req>,
}

async fn run(c: &Case) -> Outcome {
    let mut log = CaseLog::new();
    let w = match oa::setup(&c.cfg).await {
        Ok(w) => w,
        Err(e) => {
            // configurations the server refuses to store (e.g. invalid origin mix) are not cases
            log.class(format!("config-not-accepted:{}", e.chars().take(100).collect::<String>()));
            return log.finish();
        }
    };
    log.class(if c.cfg.public { "client:public" } else { "client:basic" });
    if c.cfg.requires_pkce() {
        log.class("client:requires-pkce");
    } else {
        log.class("client:pkce-optional");
    }
    let registered = c.cfg.registered();
    let held = c.cfg.held();
    let held_sup = c.cfg.held_sup();
    let mut codes = 0;
    for (i, r) in c.reqs.iter().enumerate() {
        let ct = srv::ct(w.t0 + 10 + i as u64);
        let ctx = format!("config {:?}\n request#{i} {:?} (redirect {}, scopes {:?})", c.cfg, r, r.redirect_url(), r.scope_set());
        let out = oa::authorise(&w, r, ct).await;
        let redirect = r.redirect_url();
        let exact = registered.contains(redirect.as_str());
        let loopback_ok = c.cfg.public && c.cfg.allow_localhost && oa::is_loopback(&redirect);
        let scopes_ok = !r.scope_set().is_empty() && r.scope_set().is_subset(&held);
        let pkce_ok = !c.cfg.requires_pkce() || matches!(r.pkce, Pkce::S256(_) | Pkce::Garbage);
        match out {
            AuthOutcome::Code { code, via_consent, consent_scopes } => {
                codes += 1;
                log.class("code-issued");
                log.class(if via_consent { "code-issued:after-consent" } else { "code-issued:directly" });
                if r.wrong_client {
                    log.fail("authorisation code issued for an unknown client", ctx.clone());
                }
                if !(exact || loopback_ok) {
                    log.fail("authorisation code issued for a redirect URI that is not registered", format!("{ctx}\n registered {registered:?}"));
                }
                if exact {
                    log.class("code-issued:exact-redirect");
                } else if loopback_ok {
                    log.class("code-issued:loopback-redirect");
                }
                if r.who != Who::User {
                    log.fail("authorisation code issued without an authenticated non-anonymous user", ctx.clone());
                }
                if !scopes_ok {
                    log.fail("authorisation code issued for scopes the user does not hold", format!("{ctx}\n held {held:?}"));
                }
                if !pkce_ok {
                    log.fail("authorisation code issued without the PKCE challenge the client requires", ctx.clone());
                }
                let expected: BTreeSet<String> = r.scope_set().union(&held_sup).cloned().collect();
                if let Some(shown) = &consent_scopes {
                    if *shown != expected {
                        log.fail("scopes presented for consent differ from requested ∪ supplementary", format!("{ctx}\n shown {shown:?}\n expected {expected:?}"));
                    }
                }
                // observe the scopes bound to the code through a correct exchange
                let verifier = match &r.pkce {
                    Pkce::S256(k) => Some(oa::verifier(*k)),
                    _ => None,
                };
                if !matches!(r.pkce, Pkce::Garbage) {
                    let grant = GrantTypeReq::AuthorizationCode { code, redirect_uri: redirect.clone(), code_verifier: verifier };
                    match oa::token_request(&w, grant, oa::post_auth(&w, &c.cfg, ClientAuth::Right), ct).await {
                        Ok(tr) => {
                            log.class("code-exchanged");
                            if tr.scope != expected {
                                log.fail("scopes bound to the code differ from requested ∪ supplementary", format!("{ctx}\n token scopes {:?}\n expected {expected:?}", tr.scope));
                            }
                            if !held_sup.is_empty() {
                                log.class("code-exchanged:with-supplementary-scopes");
                            }
                        }
                        Err(e) => log.class(format!("correct-exchange-refused:{}", e.split('(').next().unwrap_or(""))),
                    }
                }
            }
            AuthOutcome::NeedsAuth => log.class("needs-authentication"),
            AuthOutcome::Refused(e) => {
                if e.starts_with("harness") {
                    log.fail("harness: oauth2 driver error", format!("{ctx}: {e}"));
                }
                log.class(format!("refused:{}", e.split('(').next().unwrap_or("")));
                // how far from acceptable was it? (distribution only)
                let wrong = [!(exact || loopback_ok), r.who != Who::User, !scopes_ok, !pkce_ok, r.wrong_client].iter().filter(|b| **b).count();
                log.class(match wrong {
                    0 => "refused:model-would-accept",
                    1 => "refused:exactly-one-term-violated",
                    _ => "refused:several-terms-violated",
                });
                if wrong == 1 {
                    if !(exact || loopback_ok) {
                        log.class("refused:only-redirect-wrong");
                    } else if !scopes_ok {
                        log.class("refused:only-scopes-wrong");
                    } else if !pkce_ok {
                        log.class("refused:only-pkce-missing");
                    } else if r.who != Who::User {
                        log.class("refused:only-user-wrong");
                    }
                }
            }
        }
        if log.failed() {
            break;
        }
    }
    if codes >= 2 {
        log.nontrivial();
    }
    log.finish()
}

fn main() {
    let cx = Check::from_args("C38", "exploration");
    cx.rule(
        "random client configurations (basic/public; 1-3 registered redirect URIs from https, custom-scheme and punycode candidates + the landing URL; localhost flag; PKCE-disable flag; \
         consent switch; scope maps and supplementary scope maps on two groups and all-accounts; user memberships) x 12 requests each (redirect URI: registered, 20 near misses — path, \
         slash, case, port, userinfo, query, fragment, scheme, IDN, dot segments — and 9 loopback forms; scopes: held subset / arbitrary / unmapped; PKCE none / S256 / garbage; user, \
         anonymous, no session; prompt values; unknown client). Oracle: code issued => redirect exactly registered or (public & flag & loopback), real user, requested scopes all held, \
         S256 challenge present when required; consent screen scopes and token scopes == requested ∪ supplementary-held. non-trivial = >=2 codes issued in the case; distinct by hash",
    );
    cx.assume("exact match = equality of the url crate's serialisation of request URI and of registered URI with its fragment removed (the server stores them fragment-free)");
    cx.assume("refusals are not judged (one-directional property); floors on issued codes prevent a vacuous pass");
    let n = cx.tier.pick(800, 25_000);
    cx.prop(
        "authorisation-requests",
        PropCfg::new(n).shrink(200),
        || oa::arb_cfg().prop_flat_map(|cfg| (proptest::collection::vec(oa::arb_req(&cfg), 12), Just(cfg))).prop_map(|(reqs, cfg)| Case { cfg, reqs }),
        srv::runtime,
        |rt, c| rt.block_on(run(c)),
    );
    // class counts are per case (a class is counted once per configuration)
    for (c, floor) in [
        ("code-issued", 400),
        ("code-issued:after-consent", 300),
        ("code-issued:directly", 70),
        ("code-issued:loopback-redirect", 70),
        ("code-exchanged", 400),
        ("refused:only-redirect-wrong", 350),
        ("refused:only-scopes-wrong", 300),
        ("refused:only-pkce-missing", 250),
        ("refused:only-user-wrong", 120),
    ] {
        cx.require_class(c, floor);
    }
    cx.finish();
}
