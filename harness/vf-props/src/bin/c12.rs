//! C12 — Stored and replicated values read back unchanged.
//!
//! Three sub-checks, all comparing *what was built through public constructors* with *what comes
//! back* field by field (own comparator, not kanidm's key-only `PartialEq for Value`) and by
//! behaviour (password verify right / near-miss, TOTP codes, backup codes, session state):
//!  1. value-roundtrip  : one value set -> DbValueSetV2 -> (JSON text) -> value set
//!  2. entry-roundtrip  : whole detached entries -> DbEntry JSON / ReplEntryV1 JSON / ReplIncrementalEntryV1 JSON
//!  3. server-e2e       : real server: create -> new read txn, cache clear, backup+restore,
//!                        replication refresh and incremental replication
use kanidmd_lib::be::{Backend, BackendConfig, BackendTransaction};
use kanidmd_lib::entry::{Eattrs, Entry, EntryCommitted, EntryInit, EntryNew, EntrySealed};
use kanidmd_lib::prelude::*;
use kanidmd_lib::repl::proto::{ReplCidRange, ReplEntryV1, ReplIncrementalEntryV1};
use kanidmd_lib::schema::SchemaTransaction;
use kanidmd_lib::value::SyntaxType;
use kanidmd_lib::valueset::{self, ValueSet};
use kanidmd_lib::verif_hooks::export::{entry as hentry, DbEntry, DbValueSetV2};
use kanidmd_lib::verif_hooks::ident;
use proptest::prelude::*;
use serde::{Deserialize, Serialize};
use std::collections::{BTreeMap, BTreeSet};
use std::sync::atomic::{AtomicBool, Ordering};
use vf_core::{CaseLog, Check, Outcome, PropCfg};
use vf_world::g_storage::e2e;
use vf_world::g_storage::val::{self, GSet};
use vf_world::srv;

static CORPUS_BROKEN: AtomicBool = AtomicBool::new(false);
/// diagnostics only (VERIF_C12_PROFILE=1): wall time per value kind; never feeds an oracle
static PROFILE: std::sync::Mutex<BTreeMap<String, (u64, f64)>> = std::sync::Mutex::new(BTreeMap::new());

fn through_json(db: &DbValueSetV2) -> Result<DbValueSetV2, String> {
    let text = serde_json::to_string(db).map_err(|e| format!("serialise: {e}"))?;
    serde_json::from_str(&text).map_err(|e| format!("deserialise: {e} of {}", &text[..text.len().min(300)]))
}

fn sig_for(g: &GSet, what: &str, leg: &str, detail: &str) -> String {
    let mut kind = g.kind();
    // name the password format of the credential the discrepancy is about ("cred[<tag>]..." in the
    // detail), so that the signature names the root cause whatever else is in the set
    let creds: Vec<(&String, &val::GCred)> = g
        .vals
        .iter()
        .filter_map(|v| match v {
            val::GV::Cred { tag, cred } => Some((tag, cred)),
            _ => None,
        })
        .collect();
    if !creds.is_empty() {
        let hit = creds.iter().find(|(t, _)| detail.contains(&format!("cred[{t}]")) || detail.contains(&format!("Cred(\"{t}\""))).or(if creds.len() == 1 { creds.first() } else { None });
        if detail.contains(":totp[") {
            kind = "Cred[totp]".to_string();
        } else if detail.contains(":backup(") {
            kind = "Cred[backup-codes]".to_string();
        } else if let Some((_, c)) = hit {
            kind = format!("Cred[{}]", c.pw.label());
        }
    }
    format!("{kind}: {what} after {leg}")
}

/// Compare `after` with `before` (behaviour first, then field equality).
fn judge(log: &mut CaseLog, g: &GSet, before: &ValueSet, beh_before: &BTreeMap<String, String>, after: &ValueSet, leg: &str) {
    let beh_after = val::behaviour(after, g);
    if let Some(d) = val::behaviour_diff(beh_before, &beh_after) {
        log.fail(sig_for(g, "behaviour changed", leg, &d), d);
        return;
    }
    if let Err(d) = val::same(before, after) {
        log.fail(sig_for(g, "value not equal", leg, &d), d);
    }
}

fn classes_for(log: &mut CaseLog, g: &GSet, vs: &ValueSet) {
    log.class(format!("syntax:{}", val::syntax_name(vs.syntax())));
    log.class(format!("kind:{}", g.kind()));
    if g.vals.len() > 1 {
        log.class("multi-valued");
    }
    for v in &g.vals {
        if let val::GV::Cred { cred, .. } = v {
            log.class(cred.pw.label());
            if !cred.totp.is_empty() {
                log.class("cred:totp");
            }
            if cred.backup.is_some() && !cred.totp.is_empty() {
                log.class("cred:backup-codes");
            }
        }
    }
}

fn value_roundtrip(g: &GSet) -> Outcome {
    let t0 = std::time::Instant::now();
    let o = value_roundtrip_inner(g);
    if std::env::var_os("VERIF_C12_PROFILE").is_some() {
        let mut p = PROFILE.lock().unwrap();
        let e = p.entry(g.kind()).or_default();
        e.0 += 1;
        e.1 += t0.elapsed().as_secs_f64();
    }
    o
}

fn value_roundtrip_inner(g: &GSet) -> Outcome {
    let Some(before) = g.build() else {
        return Outcome::discard();
    };
    let mut log = CaseLog::new();
    classes_for(&mut log, g, &before);
    let beh = val::behaviour(&before, g);
    match val::behaviour_model_check(&beh) {
        Ok(n) => {
            if n > 0 {
                log.class("pw-verifies-before-storage");
            }
        }
        Err(e) => {
            // the corpus vector itself is wrong: harness problem, never a violation
            CORPUS_BROKEN.store(true, Ordering::SeqCst);
            eprintln!("corpus problem: {e} in {g:?}");
            return Outcome::discard();
        }
    }
    if !matches!(before.syntax(), SyntaxType::Utf8String | SyntaxType::Utf8StringInsensitive | SyntaxType::Utf8StringIname) {
        log.nontrivial();
    }
    // leg 1: in-memory db form
    match valueset::from_db_valueset_v2(before.to_db_valueset_v2()) {
        Ok(after) => judge(&mut log, g, &before, &beh, &after, "db round trip"),
        Err(e) => log.fail(sig_for(g, "value fails to decode", "db round trip", ""), format!("{e:?} for {g:?}")),
    }
    // leg 2: through the JSON text that sqlite / backups / replication frames carry
    if !log.failed() {
        match through_json(&before.to_db_valueset_v2()) {
            Ok(db) => match valueset::from_db_valueset_v2(db) {
                Ok(after) => judge(&mut log, g, &before, &beh, &after, "db json round trip"),
                Err(e) => log.fail(sig_for(g, "value fails to decode", "db json round trip", ""), format!("{e:?} for {g:?}")),
            },
            Err(e) => log.fail(sig_for(g, "db form does not survive JSON", "db json round trip", ""), e),
        }
    }
    log.finish()
}

// ---------------------------------------------------------------------------------------------
// whole entries

#[derive(Debug, Clone, Serialize, Deserialize)]
struct ECase {
    /// attribute value sets; the attribute is picked among the schema attributes of that syntax
    attrs: Vec<(u8, GSet)>,
    id: u32,
    cid_secs: u32,
}

struct ESt {
    rt: tokio::runtime::Runtime,
    qs: QueryServer,
}

const RESERVED: [&str; 6] = ["class", "uuid", "last_modified_cid", "created_at_cid", "source_uuid", "memberof"];

fn eattrs_judge(log: &mut CaseLog, built: &[(Attribute, GSet, ValueSet, BTreeMap<String, String>)], got: &Eattrs, leg: &str, only: Option<&BTreeSet<Attribute>>) {
    for (a, g, before, beh) in built {
        if only.is_some_and(|o| !o.contains(a)) {
            continue;
        }
        match got.get(a) {
            Some(after) => judge(log, g, before, beh, after, leg),
            None => log.fail(sig_for(g, "attribute lost", leg, ""), format!("attribute {a} missing after {leg}")),
        }
        if log.failed() {
            return;
        }
    }
}

fn entry_roundtrip(st: &mut ESt, c: &ECase) -> Outcome {
    let mut log = CaseLog::new();
    let rt = &st.rt;
    let qs = &st.qs;
    rt.block_on(async {
        let r = qs.read().await.expect("read");
        let schema = r.get_schema();
        // replicated, non-phantom schema attributes by syntax (sorted: no map-order dependence)
        let mut by_syntax: BTreeMap<SyntaxType, Vec<Attribute>> = BTreeMap::new();
        for (a, sa) in schema.get_attributes() {
            if schema.is_replicated(a) && !RESERVED.contains(&a.as_str()) {
                by_syntax.entry(sa.syntax).or_default().push(a.clone());
            }
        }
        for v in by_syntax.values_mut() {
            v.sort();
        }
        let cid = ident::cid(val::uuid_n(0x5e01), Duration::from_secs(100 + c.cid_secs as u64));
        let mut e: Entry<EntryInit, EntryNew> = Entry::new();
        e.add_ava(Attribute::Class, EntryClass::Object.to_value());
        e.add_ava(Attribute::Uuid, Value::Uuid(val::uuid_n(0xE000 + c.id as u64)));
        let mut built: Vec<(Attribute, GSet, ValueSet, BTreeMap<String, String>)> = Vec::new();
        let mut used: BTreeSet<Attribute> = BTreeSet::new();
        let mut replicated: BTreeSet<Attribute> = BTreeSet::new();
        for (sel, g) in &c.attrs {
            if g.kind() == "JwsRs256" {
                // known finding (legacy RS256 key values do not decode): observed at value level only,
                // excluded here by construction so that entry-level search continues past it
                log.class("excluded-known:jws-rs256");
                continue;
            }
            let Some(vs) = g.build() else { continue };
            let beh = val::behaviour(&vs, g);
            if val::behaviour_model_check(&beh).is_err() {
                continue;
            }
            let attr = match by_syntax.get(&vs.syntax()) {
                Some(cands) => {
                    let a = cands[*sel as usize % cands.len()].clone();
                    replicated.insert(a.clone());
                    a
                }
                None => Attribute::from(format!("zz_custom_{:?}", vs.syntax()).to_lowercase().as_str()),
            };
            if !used.insert(attr.clone()) {
                continue;
            }
            e.set_ava_set(&attr, vs.clone());
            classes_for(&mut log, g, &vs);
            built.push((attr, g.clone(), vs, beh));
        }
        if built.is_empty() {
            return;
        }
        if built.len() >= 2 {
            log.nontrivial();
        }
        let sealed: Entry<EntrySealed, EntryCommitted> = hentry::sealed_committed(e, cid.clone(), c.id as u64 + 1);

        // --- leg: DbEntry through JSON text (what id2entry and backups hold)
        let text = serde_json::to_string(&sealed.to_dbentry()).expect("dbentry json");
        let dbe: DbEntry = match serde_json::from_str(&text) {
            Ok(d) => d,
            Err(err) => {
                log.fail("DbEntry JSON does not decode", format!("{err}"));
                return;
            }
        };
        match Entry::from_dbentry(dbe, c.id as u64 + 1) {
            Some(back) => {
                eattrs_judge(&mut log, &built, back.get_ava(), "dbentry json round trip", None);
                if !log.failed() {
                    let (ka, kb): (Vec<_>, Vec<_>) = (sealed.get_ava().keys().collect(), back.get_ava().keys().collect());
                    if ka != kb {
                        log.fail("entry attribute set changed after dbentry round trip", format!("{ka:?} vs {kb:?}"));
                    }
                    let (ca, cb) = (format!("{:?}", sealed.get_changestate().current()), format!("{:?}", back.get_changestate().current()));
                    if ca != cb {
                        log.fail("entry change state changed after dbentry round trip", format!("{ca} vs {cb}"));
                    }
                    if sealed.get_uuid() != back.get_uuid() || sealed.get_id() != back.get_id() {
                        log.fail("entry identity changed after dbentry round trip", String::new());
                    }
                }
            }
            None => log.fail("entry fails to decode after dbentry json round trip", format!("attrs {:?}", built.iter().map(|b| (&b.0, b.1.kind())).collect::<Vec<_>>())),
        }
        if log.failed() {
            return;
        }
        // --- leg: refresh form
        let re = ReplEntryV1::new(&sealed, schema);
        let text = serde_json::to_string(&re).expect("repl json");
        match serde_json::from_str::<ReplEntryV1>(&text).map_err(|e| format!("{e}")).and_then(|r| r.rehydrate().map_err(|e| format!("{e:?}"))) {
            Ok((ecs, eattrs)) => {
                eattrs_judge(&mut log, &built, &eattrs, "repl refresh entry round trip", Some(&replicated));
                let got = format!("{:?}", ecs.current());
                if !log.failed() && !got.contains(&format!("{:?}", cid)) {
                    log.fail("change state lost in repl refresh entry", got);
                }
                if !replicated.is_empty() {
                    log.class("repl-leg-exercised");
                }
            }
            Err(err) => log.fail("entry fails to decode after repl refresh entry round trip", format!("{err}; attrs {:?}", built.iter().map(|b| (&b.0, b.1.kind())).collect::<Vec<_>>())),
        }
        if log.failed() {
            return;
        }
        // --- leg: incremental form
        let mut range = BTreeMap::new();
        range.insert(
            cid.s_uuid,
            ReplCidRange {
                ts_min: Duration::from_secs(1),
                ts_max: Duration::from_secs(u32::MAX as u64 + 1000),
            },
        );
        let ri = ReplIncrementalEntryV1::new(&sealed, schema, &range);
        let text = serde_json::to_string(&ri).expect("repl json");
        match serde_json::from_str::<ReplIncrementalEntryV1>(&text).map_err(|e| format!("{e}")).and_then(|r| r.rehydrate().map_err(|e| format!("{e:?}"))) {
            Ok((u, _ecs, eattrs)) => {
                if u != sealed.get_uuid() {
                    log.fail("uuid changed in repl incremental entry", String::new());
                }
                eattrs_judge(&mut log, &built, &eattrs, "repl incremental entry round trip", Some(&replicated));
            }
            Err(err) => log.fail("entry fails to decode after repl incremental entry round trip", format!("{err}; attrs {:?}", built.iter().map(|b| (&b.0, b.1.kind())).collect::<Vec<_>>())),
        }
    });
    log.finish()
}

fn main() {
    let cx = Check::from_args("C12", "exploration");
    cx.rule(
        "value sets of 45 value variants (every SyntaxType with a public constructor; credentials from kanidm Argon2id/PBKDF2 and 17 imported hash formats, with TOTP and backup codes; sessions, \
         api tokens, oauth2 sessions in all states; keys, certificates, images, claim/scope maps ...) built through public constructors, 1-4 values per set, unicode strings. Each set goes through \
         DbValueSetV2 (in memory and as JSON text), whole detached entries through DbEntry JSON, ReplEntryV1 JSON and ReplIncrementalEntryV1 JSON, and generated populations through a real server \
         (fresh read txn, cache clear, backup+restore, replication refresh, incremental replication). Oracle: own field-by-field comparator + proto strings + index keys + behaviour (verify(right)=true and \
         verify(near-miss)=false before AND after; TOTP codes at 5 instants; backup codes; session/key state). non-trivial = anything but a plain string set (value level), >=2 attributes (entry level), \
         >=1 credential-bearing entry (server level); distinct by hash of the generated value",
    );
    cx.assume("the corpus hashes verify their cleartext before storage (checked at run time; a corpus vector that does not is reported as inconclusive, not as a violation)");
    cx.assume("Passkey / AttestedPasskey / EcKeyPrivate / TPM-bound Argon2id values cannot be built without a WebAuthn ceremony or an HSM and are not generated at value level");

    let n1 = std::env::var("VERIF_C12_N1").ok().and_then(|s| s.parse().ok()).unwrap_or(cx.tier.pick(3_000, 100_000));
    cx.prop("value-roundtrip", PropCfg::new(n1).shrink(400), val::arb_gset, || (), |_, g| value_roundtrip(g));

    for (k, (n, t)) in PROFILE.lock().unwrap().iter() {
        eprintln!("[profile] {k}: {n} cases {t:.2}s");
    }
    let n2 = cx.tier.pick(500, 15_000);
    cx.prop(
        "entry-roundtrip",
        PropCfg::new(n2).shrink(300),
        || {
            (proptest::collection::vec((any::<u8>(), val::arb_gset()), 1..6), 0u32..1000, 0u32..100_000).prop_map(|(attrs, id, cid_secs)| ECase { attrs, id, cid_secs })
        },
        || {
            let rt = srv::runtime();
            let qs = rt.block_on(srv::new_qs());
            ESt { rt, qs }
        },
        entry_roundtrip,
    );

    let n3 = cx.tier.pick(60, 2_000);
    cx.prop("server-e2e", PropCfg::new(n3).shrink(60), e2e::arb_case, srv::runtime, |rt, c| e2e::run(rt, c));

    if CORPUS_BROKEN.load(Ordering::SeqCst) {
        cx.inconclusive("a corpus password vector does not verify before storage (see stderr)");
    }
    // every syntax reachable through public constructors must have been exercised
    for s in [
        "Utf8String", "Utf8StringInsensitive", "Utf8StringIname", "Uuid", "ReferenceUuid", "Boolean", "Uint32", "Int64", "Uint64", "SyntaxId", "IndexId", "SecretUtf8String",
        "SecurityPrincipalName", "Cid", "JsonFilter", "NsUniqueId", "Url", "DateTime", "PrivateBinary", "OauthScope", "Credential", "SshKey", "OauthScopeMap", "IntentToken",
        "EmailAddress", "Session", "ApiToken", "Oauth2Session", "UiHint", "TotpSecret", "AuditLogString", "Image", "CredentialType", "WebauthnAttestationCaList", "OauthClaimMap",
        "HexString", "KeyInternal", "Certificate", "ApplicationPassword", "JwsKeyEs256",
    ] {
        cx.require_class(&format!("syntax:{s}"), cx.tier.pick(10, 100));
    }
    cx.require_class("pw-verifies-before-storage", cx.tier.pick(300, 3000));
    cx.require_class("pw:import:crypt-sha512", 10);
    cx.require_class("cred:totp", 50);
    cx.require_class("repl-leg-exercised", 50);
    cx.require_class("e2e:restored", 10);
    cx.require_class("e2e:refreshed", 10);
    cx.require_class("e2e:incremental-applied", 10);
    cx.finish();
}

#[allow(dead_code)]
fn _unused(_: &Backend, _: &BackendConfig) {}
#[allow(dead_code)]
fn _unused2<T: BackendTransaction>(_: &T) {}
