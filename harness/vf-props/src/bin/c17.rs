//! C17 — Group membership closure is always exact.
//!
//! Random histories of member edits / group deletes / revives / dyngroups on a real server; after
//! every commit memberof and directmemberof of every live entry must equal the closure recomputed
//! by BFS from the stored member ∪ dynmember edges (exact set equality, both directions).
use proptest::prelude::*;
use serde::{Deserialize, Serialize};
use vf_core::{CaseLog, Check, Outcome, PropCfg};
use vf_world::hist;
use vf_world::inv;
use vf_world::ops::{self, Op, Step, Weights};
use vf_world::repl::{Cluster, StepResult};
use vf_world::srv;

#[derive(Debug, Clone, Serialize, Deserialize)]
struct Case {
    ops: Vec<Op>,
}
#[derive(Debug, Clone, Serialize, Deserialize)]
struct RCase {
    steps: Vec<Step>,
}

fn weights() -> Weights {
    Weights {
        create: 12,
        member: 16,
        delete: 5,
        revive: 4,
        dyngroup: 2,
        rename: 1,
        attr: 2,
        posix: 0,
        oauth2: 0,
        manager: 0,
        purge: 1,
        reindex: 0,
        bad: 1,
        persons: 4,
        services: 1,
        groups: 8,
        ..Weights::default()
    }
}

fn single(rt: &tokio::runtime::Runtime, c: &Case) -> Outcome {
    let mut log = CaseLog::new();
    let mut cyc = false;
    let mut maxdepth = 0;
    let mut known: Option<(String, String)> = None;
    let (_node, stats) = rt.block_on(hist::run_single(&c.ops, &mut log, true, |snap, log| {
        if let Some((sig, detail)) = inv::memberof_classify(snap.entries) {
            let msg = format!("after step {} {:?}: {}", snap.step, snap.op, detail);
            if sig == inv::SIG_MO_STALE_CYCLE {
                // known finding: remember it, keep checking the rest of the history for anything else
                if known.is_none() {
                    known = Some((sig.to_string(), msg));
                }
            } else {
                log.fail(sig, msg);
            }
        }
        let (c, d) = inv::graph_shape(snap.entries);
        cyc |= c;
        maxdepth = maxdepth.max(d);
    }));
    let labels = ops::labels(&c.ops);
    let removal = labels.contains("member-removal") || labels.contains("delete");
    if (cyc || maxdepth >= 3) && removal && stats.committed >= 5 {
        log.nontrivial();
    }
    if cyc {
        log.class("graph-has-cycle");
    }
    if maxdepth >= 3 {
        log.class("graph-depth>=3");
    }
    for l in labels {
        log.class(l);
    }
    log.class(format!("committed:{}", (stats.committed / 10) * 10));
    if let Some((sig, msg)) = known {
        log.fail(sig, msg);
    }
    log.finish()
}

const SIG_EDGE_REVERSAL: &str = "stale memberof after one replicated change set that changes two or more nodes of the membership graph";

/// (group, member) pairs among live groups
fn group_edges(entries: &[inv::E]) -> std::collections::BTreeSet<(kanidmd_lib::prelude::Uuid, kanidmd_lib::prelude::Uuid)> {
    use kanidmd_lib::prelude::*;
    let mut out = std::collections::BTreeSet::new();
    for g in inv::live(entries) {
        if g.has_class(&EntryClass::Group) {
            for m in inv::refs(g, Attribute::Member) {
                out.insert((g.get_uuid(), m));
            }
        }
    }
    out
}

fn replicated(rt: &tokio::runtime::Runtime, c: &RCase) -> Outcome {
    let mut log = CaseLog::new();
    rt.block_on(async {
        let mut cl = Cluster::new(2).await;
        let mut applied = 0;
        for (i, s) in c.steps.iter().enumerate() {
            // group -> member edges on the consumer BEFORE a replication step (for the edge-reversal fingerprint)
            let (pre_edges, pre_live) = if let Step::Repl { to, .. } = s {
                let mut rtxn = cl.nodes[*to as usize % 2].qs.read().await.expect("read");
                let pre = vf_world::dump::all_entries(&mut rtxn).expect("entries");
                let pl: std::collections::BTreeSet<_> = inv::live(&pre).iter().map(|e| e.get_uuid()).collect();
                (Some(group_edges(&pre)), Some(pl))
            } else {
                (None, None)
            };
            let r = cl.step(s).await;
            let node = match (s, &r) {
                (Step::Do { r: n, .. }, StepResult::Op(Ok(()))) => Some(*n as usize % 2),
                (Step::Repl { to, .. }, StepResult::Repl(vf_world::repl::ReplResult::Applied)) => {
                    applied += 1;
                    Some(*to as usize % 2)
                }
                (Step::Refresh { to, .. }, StepResult::Refresh(Ok(()))) => Some(*to as usize % 2),
                _ => None,
            };
            if let Some(n) = node {
                let mut rtxn = cl.nodes[n].qs.read().await.expect("read");
                let entries = vf_world::dump::all_entries(&mut rtxn).expect("entries");
                if let Some((sig, detail)) = inv::memberof_classify(&entries) {
                    // Known finding: when ONE replicated change set changes several member lists at once
                    // (e.g. G2 gains a member while G4 drops G2, or G4 -> G2 is replaced by G2 -> G4), the
                    // unchanged members below keep the old transitive membership on the consumer.
                    // Fingerprint: this replication step changed >= 2 membership-graph nodes on the consumer
                    // (group member lists changed, entries created / deleted / revived), and every discrepancy is a surplus (stale) value, never a missing one.
                    let reversed = pre_edges.as_ref().map(|pre| {
                        let post = group_edges(&entries);
                        let mut changed: std::collections::BTreeSet<_> = pre.symmetric_difference(&post).map(|(g, _)| *g).collect();
                        // entries created / deleted / revived by the same change set count as graph changes too
                        let post_live: std::collections::BTreeSet<_> = inv::live(&entries).iter().map(|e| e.get_uuid()).collect();
                        if let Some(pl) = pre_live.as_ref() {
                            changed.extend(pl.symmetric_difference(&post_live).copied());
                        }
                        changed.len() >= 2 && inv::memberof_violations(&entries).iter().all(|l| l.contains("missing []"))
                    });
                    let sig = if sig == inv::SIG_MO_MISMATCH && reversed == Some(true) { SIG_EDGE_REVERSAL } else { sig };
                    log.fail(sig, format!("replica {n} after step {i} {s:?} -> {r:?}: {detail}"));
                    if sig != inv::SIG_MO_STALE_CYCLE && sig != SIG_EDGE_REVERSAL {
                        break;
                    }
                }
            }
        }
        if applied > 0 {
            log.nontrivial();
            log.class("replicated-change-applied");
        }
    });
    log.finish()
}

fn main() {
    let cx = Check::from_args("C17", "exploration");
    cx.rule(
        "random op histories (create/member add/remove/set, group delete/revive, dyngroups, purge; 4 persons, 8 groups, cycles and self-loops allowed) on a real in-memory server; \
         after EVERY commit the harness recomputes memberof/directmemberof of every live entry by BFS over stored member+dynmember edges of live groups and demands exact set equality; \
         second sub-check: 2 replicas with random incremental replication, checked after every applied change. non-trivial = graph had a cycle or depth>=3 AND the history removed an edge or group AND >=5 commits \
         (replicated: >=1 replicated change set applied); distinct by hash of the history",
    );
    cx.assume("rejected operations are also required to leave the database unchanged (dump equality)");
    let w = weights();
    let n = cx.tier.pick(400, 4_000);
    let len = cx.tier.pick(10..45usize, 20..120usize);
    cx.prop(
        "single-server-histories",
        PropCfg::new(n).shrink(300),
        || ops::arb_history(&w, len.clone()).prop_map(|ops| Case { ops }),
        srv::runtime,
        |rt, c| single(rt, c),
    );
    let n2 = cx.tier.pick(120, 1_200);
    let len2 = cx.tier.pick(10..40usize, 20..90usize);
    cx.prop(
        "two-replica-histories",
        PropCfg::new(n2).shrink(200),
        || ops::arb_steps(&w, 2, len2.clone(), 3, 0).prop_map(|steps| RCase { steps }),
        srv::runtime,
        |rt, c| replicated(rt, c),
    );
    cx.require_class("graph-has-cycle", 5);
    cx.finish();
}
