//! C28 part (ii): the server paths that consult the soft lock.
//!
//! Black-box oracle. A wrong-credential attempt is a *counted failure* when a right-credential
//! probe at the same instant, immediately before it, succeeded (so the lock was open and the
//! wrong credential was really judged). Probes never change the lock: a success records nothing
//! and a refusal while locked records nothing.
//!  S1  after a counted failure at t, a fully correct attempt at t' in [t, t+1s) (same window) is refused;
//!  S2  counted failures per UTC day <= 100 (password-only and POSIX password credentials),
//!      per TOTP step <= 3 (password+TOTP credential) — successes in between change nothing.
use kanidm_proto::v1::AuthMech;
use proptest::prelude::*;
use serde::{Deserialize, Serialize};
use std::collections::BTreeMap;
use std::time::Duration;
use vf_core::{CaseLog, Check, Outcome, PropCfg};
use vf_world::g_auth::{person_name, Cred as AuthCredential, ref_totp_code, Attempt, PersonSpec, World};
use vf_world::{pop, srv};

const NS: u128 = 1_000_000_000;
const PW: &str = "correct horse battery staple 7!";
const UNIX_PW: &str = "unix-Only password 93 kangaroo";
const SECRET: &[u8] = b"0123456789abcdef0123456789abcdef";
const STEP: u64 = 30;

#[derive(Debug, Clone, Copy, Serialize, Deserialize, PartialEq)]
enum Path {
    /// web login, password-only account
    WebPw,
    /// web login, password+TOTP account; wrong factor chosen by the event
    WebTotp,
    /// auth_unix against the POSIX password
    Unix,
    /// LDAP simple bind (same POSIX credential and lock as Unix)
    Ldap,
}

#[derive(Debug, Clone, Copy, Serialize, Deserialize, PartialEq)]
enum SEv {
    /// probe with right credentials, then (if the probe succeeded or not) a wrong attempt.
    /// wrong_pw: for WebTotp the TOTP is right and the password wrong, otherwise the TOTP is wrong.
    Fail { wrong_pw: bool },
    /// a right-credential attempt only
    Good,
    Adv(u64),
    /// n times: step the clock (1.05 s, doubling up to 9 s, <= 12 increments) until a probe succeeds, then fail
    Hammer(u8),
    /// jump to the end of the current window (day for passwords, TOTP step) + signed ns
    AdvWindow(i64),
    /// web paths only: open a session now (Init + Begin) and keep it for later
    PreBegin,
    /// web paths only: present the RIGHT credentials on the oldest kept session now
    UsePre,
}

#[derive(Debug, Clone, Serialize, Deserialize)]
struct Case {
    path: Path,
    /// start offset in ns after the world epoch
    start: u64,
    evs: Vec<SEv>,
}

struct Run<'a> {
    w: &'a World,
    path: Path,
    now: u128,
    per_window: BTreeMap<u64, u64>,
    last_counted: Option<u128>,
    counted: u64,
    refused_probes: u64,
    max_in_window: u64,
    successes_between: bool,
    kept: Vec<uuid::Uuid>,
    used_kept: u64,
}

impl Run<'_> {
    /// Init + Begin now; Some(session id) when the server asks for credentials.
    async fn pre_begin(&mut self) -> Option<uuid::Uuid> {
        use kanidmd_lib::idm::authentication::{AuthState, AuthStep};
        let ct = self.ct();
        let mech = match self.path {
            Path::WebPw => AuthMech::Password,
            Path::WebTotp => AuthMech::PasswordTotp,
            _ => return None,
        };
        let r = self.w.auth_step(None, AuthStep::Init(person_name(0)), ct).await.ok()?;
        self.tick();
        let sid = r.sessionid;
        if !matches!(r.state, AuthState::Choose(_)) {
            return None;
        }
        let r = self.w.auth_step(Some(sid), AuthStep::Begin(mech), ct).await.ok()?;
        matches!(r.state, AuthState::Continue(_)).then_some(sid)
    }

    /// right credentials on a kept session; true = token issued
    async fn use_kept(&mut self, sid: uuid::Uuid) -> bool {
        use kanidmd_lib::idm::authentication::{AuthState, AuthStep};
        let ct = self.ct();
        let creds: Vec<AuthCredential> = match self.path {
            Path::WebPw => vec![AuthCredential::Password(PW.into())],
            _ => vec![
                AuthCredential::Totp(ref_totp_code(SECRET, STEP, ct, 0).unwrap_or(0)),
                AuthCredential::Password(PW.into()),
            ],
        };
        for c in creds {
            match self.w.auth_step(Some(sid), AuthStep::Cred(c.real()), ct).await {
                Ok(r) => match r.state {
                    AuthState::Success(..) => return true,
                    AuthState::Continue(_) => {}
                    _ => return false,
                },
                Err(_) => return false,
            }
        }
        false
    }

    fn ct(&self) -> Duration {
        Duration::new((self.now / NS) as u64, (self.now % NS) as u32)
    }
    fn window(&self) -> u64 {
        match self.path {
            Path::WebTotp => STEP,
            _ => 86_400,
        }
    }
    fn bound(&self) -> u64 {
        match self.path {
            Path::WebTotp => 3,
            _ => 100,
        }
    }
    fn count_failure(&mut self, t: u128, log: &mut CaseLog) {
        let widx = (t / NS) as u64 / self.window();
        let n = {
            let n = self.per_window.entry(widx).or_default();
            *n += 1;
            *n
        };
        self.max_in_window = self.max_in_window.max(n);
        if n > self.bound() {
            log.fail(
                format!("more than {} judged failures in one window ({:?})", self.bound(), self.path),
                format!("window {widx}: {n} judged failures, last at {t} ns"),
            );
        }
    }
    fn tick(&mut self) {
        // every Init needs its own instant (session ids derive from the time)
        self.now += 1_000;
    }

    async fn attempt(&mut self, right: bool, wrong_pw: bool) -> Result<bool, String> {
        let ct = self.ct();
        let target = pop::person_uuid(0);
        let name = person_name(0);
        let r = match self.path {
            Path::WebPw => {
                let pw = if right { PW } else { "not the password at all 1!" };
                let a = self
                    .w
                    .web_attempt(&name, AuthMech::Password, &[AuthCredential::Password(pw.into())], ct)
                    .await;
                match a {
                    Attempt::Success => Ok(true),
                    Attempt::Denied(_) => Ok(false),
                    o => Err(format!("{o:?}")),
                }
            }
            Path::WebTotp => {
                let good = ref_totp_code(SECRET, STEP, ct, 0).unwrap_or(0);
                let (code, pw) = if right {
                    (good, PW)
                } else if wrong_pw {
                    (good, "not the password at all 1!")
                } else {
                    ((good + 1) % 1_000_000, PW)
                };
                let a = self
                    .w
                    .web_attempt(
                        &name,
                        AuthMech::PasswordTotp,
                        &[AuthCredential::Totp(code), AuthCredential::Password(pw.into())],
                        ct,
                    )
                    .await;
                match a {
                    Attempt::Success => Ok(true),
                    Attempt::Denied(_) => Ok(false),
                    o => Err(format!("{o:?}")),
                }
            }
            Path::Unix => {
                let pw = if right { UNIX_PW } else { "wrong unix password 000 x" };
                self.w.unix_attempt(target, pw, ct).await.map_err(|e| format!("{e:?}"))
            }
            Path::Ldap => {
                let pw = if right { UNIX_PW } else { "wrong unix password 000 x" };
                self.w.ldap_attempt(target, pw, ct).await.map_err(|e| format!("{e:?}"))
            }
        };
        self.tick();
        r
    }

    /// returns Err for harness trouble
    async fn probe(&mut self, log: &mut CaseLog) -> Result<bool, String> {
        let t = self.now;
        let ok = self.attempt(true, false).await?;
        if ok {
            if let Some(lt) = self.last_counted {
                let w = self.window() as u128;
                let same_window = (lt / NS) / w == (t / NS) / w;
                if t - lt < NS && same_window {
                    log.fail(
                        format!("login succeeded less than a second after a counted failure ({:?})", self.path),
                        format!("failure at {lt} ns, success at {t} ns"),
                    );
                }
                self.successes_between = true;
            }
        } else {
            self.refused_probes += 1;
        }
        Ok(ok)
    }

    async fn fail(&mut self, wrong_pw: bool, log: &mut CaseLog) -> Result<(), String> {
        let open = self.probe(log).await?;
        let t = self.now;
        let ok = self.attempt(false, wrong_pw).await?;
        if ok {
            log.fail(
                format!("wrong credential accepted ({:?})", self.path),
                format!("at {t} ns"),
            );
            return Ok(());
        }
        if open {
            self.counted += 1;
            self.last_counted = Some(t);
            self.count_failure(t, log);
        }
        Ok(())
    }

    async fn run(&mut self, ev: &SEv, log: &mut CaseLog) -> Result<(), String> {
        match ev {
            SEv::Fail { wrong_pw } => self.fail(*wrong_pw, log).await?,
            SEv::Good => {
                self.probe(log).await?;
            }
            SEv::PreBegin => {
                if self.kept.len() < 4 {
                    if let Some(sid) = self.pre_begin().await {
                        self.kept.push(sid);
                    }
                }
            }
            SEv::UsePre => {
                if !self.kept.is_empty() {
                    let sid = self.kept.remove(0);
                    let t = self.now;
                    let ok = self.use_kept(sid).await;
                    self.used_kept += 1;
                    if ok {
                        if let Some(lt) = self.last_counted {
                            let w = self.window() as u128;
                            if t - lt < NS && (lt / NS) / w == (t / NS) / w {
                                log.fail(
                                    format!("login succeeded less than a second after a counted failure ({:?})", self.path),
                                    format!("failure at {lt} ns, success on a session begun earlier at {t} ns"),
                                );
                            }
                        }
                    }
                }
            }
            SEv::Adv(ns) => self.now += *ns as u128,
            SEv::AdvWindow(off) => {
                let w = self.window() as u128;
                let end = ((self.now / NS) / w + 1) * w * NS;
                let t = end as i128 + *off as i128;
                if t as u128 > self.now {
                    self.now = t as u128;
                }
            }
            SEv::Hammer(n) => {
                for _ in 0..*n {
                    let mut open = false;
                    let mut inc: u128 = 1_050_000_000;
                    for _ in 0..12 {
                        // peek without the S1 judgement being affected: probe() judges S1 itself
                        if self.probe(log).await? {
                            open = true;
                            break;
                        }
                        self.now += inc;
                        inc = (inc * 2).min(9_000_000_000);
                    }
                    if !open || log.failed() {
                        break;
                    }
                    // the probe just succeeded at (now - tick); fail right away
                    let t = self.now;
                    let ok = self.attempt(false, false).await?;
                    if ok {
                        log.fail(format!("wrong credential accepted ({:?})", self.path), format!("at {t} ns"));
                        break;
                    }
                    self.counted += 1;
                    self.last_counted = Some(t);
                    self.count_failure(t, log);
                    if log.failed() {
                        break;
                    }
                }
            }
        }
        Ok(())
    }
}

fn check(rt: &tokio::runtime::Runtime, case: &Case) -> Outcome {
    let mut log = CaseLog::new();
    let harness_err: Option<String> = rt.block_on(async {
        let w = World::new().await;
        let spec = PersonSpec {
            idx: 0,
            password: Some(PW.into()),
            totp: if case.path == Path::WebTotp { Some((SECRET.to_vec(), STEP)) } else { None },
            posix: true,
            unix_password: Some(UNIX_PW.into()),
            ..Default::default()
        };
        if let Err(e) = w.create_person(srv::ct(1), &spec).await {
            return Some(format!("create person: {e:?}"));
        }
        let mut run = Run {
            w: &w,
            path: case.path,
            now: srv::ct(100).as_nanos() + case.start as u128,
            per_window: BTreeMap::new(),
            last_counted: None,
            counted: 0,
            refused_probes: 0,
            max_in_window: 0,
            successes_between: false,
            kept: Vec::new(),
            used_kept: 0,
        };
        // sanity: the right credentials work on a fresh server (otherwise the case says nothing)
        match run.attempt(true, false).await {
            Ok(true) => {}
            o => return Some(format!("right credentials do not log in on a fresh server: {o:?}")),
        }
        for ev in &case.evs {
            if let Err(e) = run.run(ev, &mut log).await {
                return Some(e);
            }
            if log.failed() {
                break;
            }
        }
        log.class(format!("server-path:{:?}", case.path));
        if run.counted >= 2 {
            log.nontrivial();
        }
        if run.refused_probes > 0 {
            log.class("server:right-credential-refused-while-locked");
        }
        if run.max_in_window >= run.bound() {
            log.class(format!("server:reached-window-bound:{:?}", case.path));
        }
        if run.used_kept > 0 {
            log.class("server:credentials-on-session-begun-earlier");
        }
        if run.successes_between {
            log.class("server:success-between-failures");
        }
        None
    });
    if let Some(e) = harness_err {
        // harness trouble is never a violation
        return Outcome::discard().class(format!("server:harness-error:{}", e.chars().take(60).collect::<String>()));
    }
    log.finish()
}

fn arb_case() -> impl Strategy<Value = Case> {
    let path = prop_oneof![3 => Just(Path::WebPw), 4 => Just(Path::WebTotp), 2 => Just(Path::Unix), 2 => Just(Path::Ldap)];
    let ev = prop_oneof![
        6 => any::<bool>().prop_map(|wrong_pw| SEv::Fail { wrong_pw }),
        2 => Just(SEv::Good),
        4 => prop_oneof![Just(1u64), Just(500_000_000), Just(999_000_000), Just(1_000_000_001), Just(1_500_000_000),
                         Just(3_100_000_000), 0u64..12_000_000_000, 0u64..100_000_000_000].prop_map(SEv::Adv),
        2 => prop_oneof![Just(-500_000_000i64), Just(-2_000), Just(0), Just(1), Just(700_000_000)].prop_map(SEv::AdvWindow),
        1 => (1u8..6).prop_map(SEv::Hammer),
        3 => Just(SEv::PreBegin),
        4 => Just(SEv::UsePre),
    ];
    // start: somewhere in the day, or 2 s before a UTC midnight (T0+100 = 1_700_000_100; next midnight 1_700_006_400)
    let start = prop_oneof![
        2 => Just(0u64),
        2 => Just((6_300 - 2) * 1_000_000_000u64),
        1 => (0u64..86_400).prop_map(|s| s * 1_000_000_000),
    ];
    (path, start, proptest::collection::vec(ev, 3..14)).prop_map(|(path, start, evs)| Case { path, start, evs })
}

/// long hammer runs that must hit the bound: password 100/day, TOTP 3/step
fn bound_case(i: u64) -> Case {
    match i {
        0 => Case { path: Path::WebPw, start: 0, evs: vec![SEv::Hammer(60), SEv::Hammer(60)] },
        1 => Case { path: Path::Unix, start: 0, evs: vec![SEv::Hammer(60), SEv::Good, SEv::Hammer(60)] },
        2 => Case { path: Path::Ldap, start: 0, evs: vec![SEv::Hammer(60), SEv::Hammer(60)] },
        // a session begun before the failure presents the right credentials right after it
        3 => Case { path: Path::WebPw, start: 0, evs: vec![SEv::PreBegin, SEv::Fail { wrong_pw: false }, SEv::UsePre] },
        4 => Case { path: Path::WebTotp, start: 0, evs: vec![SEv::PreBegin, SEv::PreBegin, SEv::Fail { wrong_pw: true }, SEv::UsePre, SEv::Adv(300_000_000), SEv::UsePre] },
        _ => Case {
            path: Path::WebTotp,
            start: (i - 5) * 7_000_000_000,
            evs: vec![SEv::Hammer(2), SEv::Good, SEv::Adv(1_200_000_000), SEv::Good, SEv::Hammer(3), SEv::AdvWindow(1), SEv::Hammer(5)],
        },
    }
}

pub fn run(cx: &Check) {
    cx.enumerate("server-scripted-runs", 10, bound_case, srv::runtime, |rt, c| check(rt, c));
    cx.extra("t_after_scripted_s", serde_json::json!(cx.elapsed_s()));
    let n = cx.tier.pick(160, 6_000);
    cx.prop("server-paths", PropCfg::new(n).shrink(120), arb_case, srv::runtime, |rt, c| check(rt, c));
    cx.require_class("server:right-credential-refused-while-locked", 20);
    cx.require_class("server:reached-window-bound:WebTotp", 5);
    cx.require_class("server:reached-window-bound:WebPw", 1);
    cx.require_class("server:reached-window-bound:Unix", 1);
    cx.require_class("server:success-between-failures", 8);
    cx.require_class("server:credentials-on-session-begun-earlier", 5);
    for c in ["server-path:WebPw", "server-path:WebTotp", "server-path:Unix", "server-path:Ldap"] {
        cx.require_class(c, 8);
    }
}
