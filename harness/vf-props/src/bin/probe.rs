use vf_world::srv::*;
use vf_world::*;
use kanidmd_lib::prelude::*;
fn main() {
    let rt = runtime();
    rt.block_on(async {
        let qs = new_qs().await;
        let mut w = qs.write(ct(1)).await.unwrap();
        w.internal_create(vec![pop::person(pop::person_uuid(0), "p0"), pop::group(pop::group_uuid(0), "g0", &[pop::person_uuid(0)])]).unwrap();
        w.commit().unwrap();
        let mut r = qs.read().await.unwrap();
        let d = dump::dump_all(&mut r).unwrap();
        println!("{} entries", d.len());
        println!("{}", serde_json::to_string_pretty(&d[&pop::person_uuid(0)]).unwrap());
        println!("{}", serde_json::to_string_pretty(&d[&pop::group_uuid(0)]).unwrap());
    });
}
