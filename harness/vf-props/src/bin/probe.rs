use kanidmd_lib::prelude::*;
use kanidmd_lib::value::PartialValue;
use vf_world::ops::{self, Op, Ref};
use vf_world::srv::*;
fn main() {
    let rt = runtime();
    rt.block_on(async {
        let mut node = ops::Node::new().await;
        for op in [
            Op::CreateGroup { i: 0, name: 0, members: vec![] },
            Op::CreateGroup { i: 1, name: 1, members: vec![] },
            Op::EnablePosix { t: Ref::G(0), gid: Some(0) },
            Op::EnablePosix { t: Ref::G(1), gid: Some(2) },
        ] {
            println!("{:?} -> {:?}", op, ops::apply(&mut node, &op).await);
        }
        let mut r = node.qs.read().await.unwrap();
        for (n, f) in [
            ("gt 70001", f_gt(Attribute::GidNumber, PartialValue::Uint32(70001))),
            ("lt 80000", f_lt(Attribute::GidNumber, PartialValue::Uint32(80000))),
            ("pres", f_pres(Attribute::GidNumber)),
            ("pres and not lt 80000", f_and(vec![f_pres(Attribute::GidNumber), f_andnot(f_lt(Attribute::GidNumber, PartialValue::Uint32(80000)))])),
            ("class=group and not name=*nna", f_and(vec![f_eq(Attribute::Class, PartialValue::new_iutf8("group")), f_andnot(f_sub(Attribute::Name, PartialValue::new_iname("nna x")))])),
        ] {
            let res = r.internal_search(Filter::new_ignore_hidden(f)).map(|v| v.iter().map(|e| e.get_ava_single_uint32(Attribute::GidNumber)).collect::<Vec<_>>());
            println!("{n}: {:?}", res.map(|v| v.len()));
        }
    });
}
