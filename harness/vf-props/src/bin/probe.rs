use kanidmd_lib::prelude::*;
use vf_world::ops::Step;
use vf_world::repl::Cluster;
use vf_world::srv::*;
use vf_world::{dump, inv};
fn main() {
    let path = std::env::args().nth(1).unwrap();
    let v: serde_json::Value = serde_json::from_str(&std::fs::read_to_string(path).unwrap()).unwrap();
    let steps: Vec<Step> = serde_json::from_value(v["value"]["steps"].clone()).unwrap();
    let rt = runtime();
    rt.block_on(async {
        let mut cl = Cluster::new(2).await;
        for s in &steps {
            let r = cl.step(s).await;
            println!("{s:?} -> {r:?}");
        }
        for n in 0..2 {
            let mut r = cl.nodes[n].qs.read().await.unwrap();
            let all = dump::all_entries(&mut r).unwrap();
            println!("--- replica {n}: {:?}", inv::memberof_classify(&all));
            for e in all.iter().filter(|e| e.get_uuid().as_u128() >> 112 == 0xAAAA || e.has_class(&EntryClass::Conflict)) {
                println!(
                    "{} {:?} name={:?} class={:?} member={:?} mo={:?} dmo={:?} src={:?}",
                    e.get_uuid(),
                    dump::status_of(e),
                    dump::proto_values(e, Attribute::Name),
                    dump::proto_values(e, Attribute::Class),
                    inv::refs(e, Attribute::Member),
                    inv::refs(e, Attribute::MemberOf),
                    inv::refs(e, Attribute::DirectMemberOf),
                    dump::proto_values(e, Attribute::SourceUuid),
                );
            }
        }
    });
}
