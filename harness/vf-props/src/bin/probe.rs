use vf_world::g_storage::bak;
use vf_world::srv::*;
use vf_world::*;
use kanidmd_lib::prelude::*;
use kanidmd_lib::verif_hooks::storage as hk;
fn main() {
    let rt = runtime();
    rt.block_on(async {
        let qs = new_qs().await;
        let mut w = qs.write(ct(1)).await.unwrap();
        w.internal_create(vec![pop::person(pop::person_uuid(0), "p0"), pop::group(pop::group_uuid(0), "g0", &[pop::person_uuid(0)])]).unwrap();
        w.commit().unwrap();
        let mut w = qs.write(ct(2)).await.unwrap();
        w.internal_delete(&Filter::new_ignore_hidden(f_eq(Attribute::Name, PartialValue::new_iname("g0")))).unwrap();
        w.commit().unwrap();
        let data = {
            let mut r = qs.read().await.unwrap();
            println!("orig verify {:?}", hk::qs_verify(&mut r));
            bak::backup(&mut r, false).unwrap()
        };
        let (be, schema) = bak::restore_fresh(&data, false).unwrap();
        println!("restored");
        {
            let mut br = be.read().unwrap();
            println!("ids {:?}", hk::be::db_ids(&mut br).map(|x| (x.0, x.1, x.2)));
        }
        let qs2 = bak::start(be, schema, ct(3)).await.unwrap();
        println!("started");
        let mut r = qs2.read().await.unwrap();
        println!("restored verify {:?}", hk::qs_verify(&mut r));
    });
}
