use vf_world::g_storage::val::*;
fn main() {
    for i in 0..IMPORTS.len() {
        let g = GPw::Import { idx: i as u8, lower: false };
        let t = std::time::Instant::now();
        let pw = g.build().unwrap();
        let tb = t.elapsed();
        let t = std::time::Instant::now();
        let r = pw.verify(&g.clear());
        let tv = t.elapsed();
        let t = std::time::Instant::now();
        let r2 = pw.verify("nope");
        println!("{} build {:?} verify {:?} {:?} wrong {:?} {:?}", g.label(), tb, tv, r, t.elapsed(), r2);
    }
    for algo in 0..2 {
        let g = GPw::Generated { clear: "abc".into(), algo };
        let t = std::time::Instant::now();
        let pw = g.build().unwrap();
        let tb = t.elapsed();
        let t = std::time::Instant::now();
        let r = pw.verify("abc");
        println!("{} build {:?} verify {:?} {:?}", g.label(), tb, t.elapsed(), r);
    }
}
