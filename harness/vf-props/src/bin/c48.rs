//! C48 — Upgrading the domain level preserves data and consistency.
//!
//! A server is initialised at `DOMAIN_PREVIOUS_TGT_LEVEL`, filled by a generated history (people,
//! service accounts, groups with nested members, OAuth2 clients, dynamic groups, POSIX, renames,
//! deletes (recycled entries), memberships in built-in groups, password credentials, ssh keys),
//! then upgraded with `initialise_helper(ct, DOMAIN_TGT_LEVEL)`.
//!
//! Oracle: upgrade is Ok; the domain entry shows the target level; `verify()` is empty; every entry
//! that is not a built-in of the previous level still exists with the same lifecycle state and every
//! non-derived attribute value it had; every value the history added to a built-in entry is still
//! there; every built-in *definition* of the target level (read from migration_data through a hook,
//! not by running a migration) exists live and carries every value it specifies; entries the target
//! level deletes are gone; and every entry of a fresh install at the target level exists with every
//! value of the fresh entry, except attributes that differ between two independent fresh installs.
use kanidmd_lib::prelude::*;
use kanidmd_lib::verif_hooks::unix::{builtin_definitions_target, builtin_deleted_uuids_target, BuiltinDefinition};
use proptest::prelude::*;
use serde::{Deserialize, Serialize};
use std::collections::{BTreeMap, BTreeSet};
use vf_core::{pick_idx, CaseLog, Check, Outcome, PropCfg};
use vf_world::dump::{self, Dump, Status};
use vf_world::g_unix::{self, XOp, BUILTIN_GROUPS};
use vf_world::inv;
use vf_world::ops::{self, Node, Op, Ref, Weights};
use vf_world::srv::{self, ct};

#[derive(Debug, Clone, Serialize, Deserialize)]
struct Case {
    base: Vec<Op>,
    /// (position selector, extra op) merged into the base history
    extra: Vec<(u16, XOp)>,
    /// true: the content lives in a database file and the upgrade is performed by a NEWLY STARTED
    /// server instance opened on that file (what happens after a binary upgrade); false: upgrade on
    /// the running instance
    #[serde(default)]
    restart: bool,
}

impl Case {
    fn history(&self) -> Vec<XOp> {
        let mut h: Vec<XOp> = self.base.iter().cloned().map(XOp::Base).collect();
        for (sel, x) in &self.extra {
            // extras go into the second half so that their targets usually exist already
            let lo = h.len() / 2;
            let at = lo + pick_idx(*sel, h.len() - lo + 1);
            h.insert(at.min(h.len()), x.clone());
        }
        h
    }
}

/// Attributes the server derives or re-stamps itself (not user-set).
const DERIVED: [&str; 4] = ["memberof", "directmemberof", "last_modified_cid", "created_at_cid"];

struct Refs {
    rt: tokio::runtime::Runtime,
    prev: Dump,
    fresh: Dump,
    /// (uuid, attr) that differ between two independent fresh installs
    volatile: BTreeSet<(Uuid, String)>,
    defs: Vec<BuiltinDefinition>,
    /// (uuid, attr) of definitions that even a fresh install does not store literally
    defs_not_literal: BTreeSet<(Uuid, String)>,
    deleted: Vec<Uuid>,
}

async fn proto_dump(qs: &QueryServer) -> BTreeMap<Uuid, (Status, BTreeMap<String, Vec<String>>)> {
    let mut r = qs.read().await.expect("read");
    let ents = dump::all_entries(&mut r).expect("entries");
    ents.iter()
        .map(|e| {
            let attrs = e
                .get_ava_iter()
                .map(|(a, vs)| {
                    let mut v: Vec<String> = vs.to_proto_string_clone_iter().collect();
                    v.sort();
                    (a.to_string(), v)
                })
                .collect();
            (e.get_uuid(), (dump::status_of(e), attrs))
        })
        .collect()
}

async fn db_dump(qs: &QueryServer) -> Dump {
    let mut r = qs.read().await.expect("read");
    dump::dump_all(&mut r).expect("dump")
}

fn refs() -> Refs {
    let rt = srv::runtime();
    let (prev, fresh, volatile, defs_not_literal, defs) = rt.block_on(async {
        let p = srv::new_qs_at(None, 1, DOMAIN_PREVIOUS_TGT_LEVEL).await;
        let prev = db_dump(&p).await;
        let a = srv::new_qs_at(None, 1, DOMAIN_TGT_LEVEL).await;
        let b = srv::new_qs_at(None, 1, DOMAIN_TGT_LEVEL).await;
        let fa = db_dump(&a).await;
        let fb = db_dump(&b).await;
        let mut volatile = BTreeSet::new();
        for (u, ea) in &fa {
            match fb.get(u) {
                None => {
                    for k in ea.attrs.keys() {
                        volatile.insert((*u, k.clone()));
                    }
                }
                Some(eb) => {
                    let keys: BTreeSet<&String> = ea.attrs.keys().chain(eb.attrs.keys()).collect();
                    for k in keys {
                        if ea.attrs.get(k) != eb.attrs.get(k) {
                            volatile.insert((*u, k.clone()));
                        }
                    }
                }
            }
        }
        let defs = builtin_definitions_target().expect("definitions");
        let pa = proto_dump(&a).await;
        let mut not_literal = BTreeSet::new();
        for d in &defs {
            let Some(u) = d.uuid else { continue };
            let Some((_, attrs)) = pa.get(&u) else { continue };
            for (k, vals) in &d.attrs {
                let have = attrs.get(k);
                if !vals.iter().all(|v| have.is_some_and(|h| h.contains(v))) {
                    not_literal.insert((u, k.clone()));
                }
            }
        }
        (prev, fa, volatile, not_literal, defs)
    });
    Refs {
        rt,
        prev,
        fresh,
        volatile,
        defs,
        defs_not_literal,
        deleted: builtin_deleted_uuids_target(),
    }
}

fn check(rf: &mut Refs, c: &Case) -> Outcome {
    let mut log = CaseLog::new();
    let hist = c.history();
    let Refs {
        rt,
        prev,
        fresh,
        volatile,
        defs,
        defs_not_literal,
        deleted,
    } = rf;
    rt.block_on(async {
        let scratch = if c.restart {
            static N: std::sync::atomic::AtomicU64 = std::sync::atomic::AtomicU64::new(0);
            let root = std::env::var("VERIF_ROOT").unwrap_or_else(|_| "/verif".into());
            let dir = std::path::PathBuf::from(root).join("target").join("scratch");
            let _ = std::fs::create_dir_all(&dir);
            Some(dir.join(format!("c48-{}-{}.db", std::process::id(), N.fetch_add(1, std::sync::atomic::Ordering::SeqCst))))
        } else {
            None
        };
        struct Cleanup(Option<std::path::PathBuf>);
        impl Drop for Cleanup {
            fn drop(&mut self) {
                if let Some(p) = &self.0 {
                    for suffix in ["", "-wal", "-shm"] {
                        let _ = std::fs::remove_file(format!("{}{}", p.display(), suffix));
                    }
                }
            }
        }
        let _cleanup = Cleanup(scratch.clone());
        let mut node = Node {
            qs: srv::new_qs_at(scratch.as_deref(), 1, DOMAIN_PREVIOUS_TGT_LEVEL).await,
            clock: 10,
        };
        let mut committed = 0usize;
        let mut committed_extra = BTreeSet::new();
        for op in &hist {
            if g_unix::apply(&mut node, op).await.is_ok() && !matches!(op, XOp::Base(Op::Advance { .. })) {
                committed += 1;
                match op {
                    XOp::BuiltinMember { .. } => {
                        committed_extra.insert("content:member-of-built-in-group");
                    }
                    XOp::SetPassword { .. } => {
                        committed_extra.insert("content:password-credential");
                    }
                    XOp::AddSshKey { .. } => {
                        committed_extra.insert("content:ssh-key");
                    }
                    XOp::Base(Op::EnablePosix { .. }) => {
                        committed_extra.insert("content:posix");
                    }
                    XOp::Base(Op::CreateOAuth2 { .. }) => {
                        committed_extra.insert("content:oauth2-client");
                    }
                    XOp::Base(Op::CreateDynGroup { .. }) => {
                        committed_extra.insert("content:dynamic-group");
                    }
                    XOp::Base(Op::Delete { .. }) => {
                        committed_extra.insert("content:recycled-entry");
                    }
                    _ => {}
                }
            }
        }
        for c in &committed_extra {
            log.class(*c);
        }
        log.class(format!("committed:{}", (committed / 10) * 10));
        let before = db_dump(&node.qs).await;
        let pre_memberof_clean = {
            let mut r = node.qs.read().await.expect("read");
            let ents = dump::all_entries(&mut r).expect("entries");
            inv::memberof_classify(&ents).is_none()
        };
        let user_entries = before.keys().filter(|u| !prev.contains_key(u)).count();
        let groups_with_members = before
            .iter()
            .filter(|(u, e)| !prev.contains_key(u) && e.attrs.get("member").is_some_and(|m| !m.is_empty()))
            .count();
        log.class(format!("user-entries:{}", (user_entries / 5) * 5));

        // ---- upgrade
        let at = ct(node.clock + 3600);
        if let Some(path) = &scratch {
            // restart: a new server instance on the same database file performs the upgrade
            log.class("upgrade-by-restarted-instance");
            match srv::new_qs_uninit(Some(path.as_path()), 1, at) {
                Ok(qs2) => node.qs = qs2,
                Err(e) => {
                    log.fail("harness: cannot reopen the database file", format!("{e:?}"));
                    return;
                }
            }
        }
        if let Err(e) = node.qs.initialise_helper(at, DOMAIN_TGT_LEVEL).await {
            log.fail("upgrade to the target domain level failed", format!("{e:?} history={hist:?}"));
            return;
        }
        let after = db_dump(&node.qs).await;
        let after_proto = proto_dump(&node.qs).await;

        let dom_version = after_proto
            .get(&UUID_DOMAIN_INFO)
            .and_then(|(_, a)| a.get("version").cloned())
            .unwrap_or_default();
        if dom_version != vec![DOMAIN_TGT_LEVEL.to_string()] {
            log.fail(
                "domain entry does not show the target level after the upgrade",
                format!("version={dom_version:?} want {DOMAIN_TGT_LEVEL}"),
            );
            return;
        }

        // ---- consistency check
        let bad: Vec<String> = node
            .qs
            .verify()
            .await
            .into_iter()
            .filter_map(|r| r.err().map(|e| format!("{e:?}")))
            .collect();
        if !bad.is_empty() {
            log.fail(
                "consistency check reports errors after the upgrade",
                format!("{:?}", &bad[..bad.len().min(8)]),
            );
            return;
        }
        if pre_memberof_clean {
            let mut r = node.qs.read().await.expect("read");
            let ents = dump::all_entries(&mut r).expect("entries");
            if let Some((sig, detail)) = inv::memberof_classify(&ents) {
                log.fail(format!("membership closure wrong after the upgrade ({sig})"), detail);
                return;
            }
        } else {
            log.class("pre-upgrade:memberof-already-off");
        }

        // ---- user content
        for (u, b) in &before {
            let is_builtin = prev.contains_key(u);
            let Some(a) = after.get(u) else {
                if !is_builtin {
                    log.fail(
                        "user-created entry lost by the upgrade",
                        format!("{u} {:?} name={:?}", b.status, b.attrs.get("name")),
                    );
                    return;
                }
                continue;
            };
            if !is_builtin && a.status != b.status {
                log.fail(
                    "user-created entry changed lifecycle state in the upgrade",
                    format!("{u} {:?} -> {:?}", b.status, a.status),
                );
                return;
            }
            for (k, vals) in &b.attrs {
                if DERIVED.contains(&k.as_str()) {
                    continue;
                }
                // on built-ins only what the history added counts as user-set
                let shipped = if is_builtin { prev.get(u).and_then(|p| p.attrs.get(k)) } else { None };
                for v in vals {
                    if shipped.is_some_and(|s| s.contains(v)) {
                        continue;
                    }
                    if is_builtin && k != "member" {
                        // derived bookkeeping on built-ins (dynmember, keys, ...) is not user-set
                        continue;
                    }
                    if !a.attrs.get(k).is_some_and(|av| av.contains(v)) {
                        log.fail(
                            if is_builtin {
                                format!("value added to a built-in entry lost by the upgrade ({k})")
                            } else {
                                format!("user-set attribute value lost by the upgrade ({k})")
                            },
                            format!("{u} name={:?} value={v} after={:?}", b.attrs.get("name"), a.attrs.get(k)),
                        );
                        return;
                    }
                }
            }
        }

        // ---- built-in definitions of the target level
        for d in defs.iter() {
            let Some(u) = d.uuid else { continue };
            let Some((st, attrs)) = after_proto.get(&u) else {
                log.fail(
                    "built-in entry defined for the target level is missing after the upgrade",
                    format!("{u} ({}) name={:?}", d.phase, d.attrs.get("name")),
                );
                return;
            };
            if *st != Status::Live {
                log.fail(
                    "built-in entry defined for the target level is not live after the upgrade",
                    format!("{u} ({}) {:?}", d.phase, st),
                );
                return;
            }
            for (k, vals) in &d.attrs {
                if defs_not_literal.contains(&(u, k.clone())) {
                    continue;
                }
                for v in vals {
                    if !attrs.get(k).is_some_and(|h| h.contains(v)) {
                        log.fail(
                            format!("built-in entry lacks a value its definition specifies ({k})"),
                            format!("{u} name={:?} ({}) missing {k}={v}; has {:?}", d.attrs.get("name"), d.phase, attrs.get(k)),
                        );
                        return;
                    }
                }
            }
        }
        for u in deleted.iter() {
            if after_proto.get(u).is_some_and(|(st, _)| *st == Status::Live) {
                log.fail(
                    "entry the target level deletes is still live after the upgrade",
                    format!("{u}"),
                );
                return;
            }
        }

        // ---- upgrade path vs bootstrap path
        for (u, f) in fresh.iter() {
            let Some(a) = after.get(u) else {
                log.fail(
                    "entry of a fresh install at the target level is missing after the upgrade",
                    format!("{u} name={:?} class={:?}", f.attrs.get("name"), f.attrs.get("class")),
                );
                return;
            };
            if a.status != f.status {
                log.fail(
                    "entry of a fresh install has another lifecycle state after the upgrade",
                    format!("{u} {:?} vs fresh {:?}", a.status, f.status),
                );
                return;
            }
            for (k, vals) in &f.attrs {
                if volatile.contains(&(*u, k.clone())) || k == "last_modified_cid" || k == "created_at_cid" {
                    continue;
                }
                for v in vals {
                    if !a.attrs.get(k).is_some_and(|h| h.contains(v)) {
                        log.fail(
                            format!("upgraded built-in entry lacks a value that a fresh install has ({k})"),
                            format!("{u} name={:?} missing {k}={v}; has {:?}", f.attrs.get("name"), a.attrs.get(k)),
                        );
                        return;
                    }
                }
            }
        }

        if committed >= 8 && user_entries >= 5 && groups_with_members >= 1 && !committed_extra.is_empty() {
            log.nontrivial();
        }
        if groups_with_members >= 2 {
            log.class("content:>=2-groups-with-members");
        }
    });
    log.finish()
}

fn weights() -> Weights {
    Weights {
        create: 6,
        rename: 3,
        attr: 6,
        member: 8,
        manager: 1,
        oauth2: 2,
        dyngroup: 2,
        posix: 4,
        delete: 3,
        revive: 1,
        purge: 0,
        reindex: 0,
        advance: 1,
        domain_rename: 0,
        bad: 1,
        persons: 4,
        services: 2,
        groups: 6,
        ..Weights::default()
    }
}

fn arb_case(len: std::ops::Range<usize>) -> impl Strategy<Value = Case> {
    let w = weights();
    let anyref = ops::arb_ref(&w, false, false);
    let person = (0u8..4).prop_map(Ref::P);
    let acct = prop_oneof![3 => (0u8..4).prop_map(Ref::P), 1 => (0u8..2).prop_map(Ref::S)];
    let extra = prop_oneof![
        4 => (0u8..BUILTIN_GROUPS.len() as u8, anyref).prop_map(|(b, m)| XOp::BuiltinMember { b, m }),
        2 => (person, 0u8..3).prop_map(|(t, pw)| XOp::SetPassword { t, pw }),
        2 => (acct, 0u8..2).prop_map(|(t, k)| XOp::AddSshKey { t, k }),
    ];
    (
        ops::arb_history(&w, len),
        proptest::collection::vec((any::<u16>(), extra), 0..8),
    )
        .prop_map(|(base, extra)| Case { base, extra, restart: false })
        .prop_flat_map(|c| proptest::bool::weighted(0.4).prop_map(move |restart| Case { restart, ..c.clone() }))
}

fn main() {
    let cx = Check::from_args("C48", "exploration");
    cx.rule(
        "server at DOMAIN_PREVIOUS_TGT_LEVEL + generated history (population prefix of <=4 persons, 2 service accounts, 6 groups with member lists; then renames, attribute edits, member add/remove/set incl. nesting and cycles, manager, OAuth2 clients + scope maps, dynamic groups, POSIX enable/disable, delete/revive (recycled entries), ill-typed requests; \
         plus memberships in 8 built-in groups, password credentials, ssh keys), then initialise_helper(ct, DOMAIN_TGT_LEVEL). \
         non-trivial = >=8 committed ops, >=5 user entries, >=1 user group with members and at least one of: built-in membership, credential, ssh key, posix, oauth2 client, dynamic group, recycled entry; distinct by hash of the history",
    );
    cx.assume("built-in definitions are read from migration_data (verif-hooks) and compared as proto strings; a definition attribute that even a fresh install does not store literally is excluded per (entry, attribute) and counted in evidence; attributes that differ between two independent fresh installs are excluded from the fresh-install comparison");
    cx.assume("the history never removes or overwrites shipped values of built-in entries (some are documented create-once); memberof/directmemberof/cids are derived and checked by the closure checker instead");
    let n = cx.tier.pick(300, 6_000);
    let len = cx.tier.pick(6..28usize, 10..60usize);
    // evidence about the reference itself
    {
        let r = refs();
        cx.extra(
            "reference",
            serde_json::json!({
                "builtin_definitions": r.defs.len(),
                "definition_attrs_not_stored_literally_by_fresh_install": r.defs_not_literal.len(),
                "definition_attr_pairs": r.defs.iter().map(|d| d.attrs.len()).sum::<usize>(),
                "fresh_install_entries": r.fresh.len(),
                "attrs_differing_between_two_fresh_installs": r.volatile.len(),
                "previous_level_entries": r.prev.len(),
                "deleted_by_target_level": r.deleted.len(),
            }),
        );
        let pairs: usize = r.defs.iter().map(|d| d.attrs.len()).sum();
        if r.defs_not_literal.len() * 5 > pairs {
            cx.inconclusive("more than 20% of the definition attributes are not stored literally by a fresh install: reference unusable");
        }
    }
    cx.prop("upgrade-histories", PropCfg::new(n).shrink(60), move || arb_case(len.clone()), refs, |r, c| check(r, c));
    cx.require_class("content:member-of-built-in-group", 40);
    cx.require_class("content:password-credential", 20);
    cx.require_class("content:posix", 30);
    cx.require_class("content:recycled-entry", 30);
    cx.require_class("content:>=2-groups-with-members", 50);
    cx.finish();
}
