//! C18 — Dynamic groups contain exactly the matching entries.
//!
//! Random histories creating, editing, deleting and reviving candidate entries and dynamic groups
//! whose filters come from a generated grammar (eq / substring / presence over class, name,
//! description, displayname, mail, gidnumber; AND / OR / AND-NOT), with filter changes. After
//! EVERY op, for each live dynamic group, `dynmember` must equal (a) a from-scratch search with
//! the group's own stored filter and (b) the harness's independent evaluation of that filter over
//! all live entries.
use kanidm_proto::internal::Filter as ProtoFilter;
use kanidmd_lib::event::SearchEvent;
use kanidmd_lib::modify::{Modify, ModifyList};
use kanidmd_lib::prelude::*;
use kanidmd_lib::value::Value;
use kanidmd_lib::verif_hooks::ident;
use proptest::prelude::*;
use serde::{Deserialize, Serialize};
use std::collections::{BTreeMap, BTreeSet};
use vf_core::{CaseLog, Check, Outcome, PropCfg};
use vf_world::dump::{status_of, Status};
use vf_world::fil::{self, Alphabet, MEntry, F};
use vf_world::g_integrity as gi;
use vf_world::inv;
use vf_world::ops::{self, Node, Op, Ref, Step, Weights, DESCS, MAILS, NAMES, N_DYN};
use vf_world::repl::{Cluster, ReplResult, StepResult};
use vf_world::{pop, srv};

#[derive(Debug, Clone, Serialize, Deserialize)]
enum XOp {
    Base(Op),
    CreateDyn { i: u8, name: u8, f: F },
    SetFilter { d: u8, f: F },
}

#[derive(Debug, Clone, Serialize, Deserialize)]
struct Case {
    ops: Vec<XOp>,
}
#[derive(Debug, Clone, Serialize, Deserialize)]
struct RCase {
    steps: Vec<Step>,
}

/// Replace every NOT that is not a direct member of an AND with a positive term by its operand
/// (those inherit the C01 known finding: an isolated NOT evaluates to the empty set on the index
/// path). Returns the number of replacements.
fn strip_isolated_not(f: &F, parent_ok: bool, n: &mut usize) -> F {
    match f {
        F::Not(inner) => {
            let i = strip_isolated_not(inner, false, n);
            if parent_ok {
                F::Not(Box::new(i))
            } else {
                *n += 1;
                i
            }
        }
        F::And(l) => {
            let has_pos = l.iter().any(|x| !matches!(x, F::Not(_)));
            F::And(l.iter().map(|x| strip_isolated_not(x, has_pos, n)).collect())
        }
        F::Or(l) => F::Or(l.iter().map(|x| strip_isolated_not(x, false, n)).collect()),
        other => other.clone(),
    }
}

fn to_proto(f: &F) -> Option<ProtoFilter> {
    Some(match f {
        F::Eq(a, v) => ProtoFilter::Eq(a.clone(), v.clone()),
        F::Cnt(a, v) => ProtoFilter::Cnt(a.clone(), v.clone()),
        F::Pres(a) => ProtoFilter::Pres(a.clone()),
        F::And(l) => ProtoFilter::And(l.iter().map(to_proto).collect::<Option<Vec<_>>>()?),
        F::Or(l) => ProtoFilter::Or(l.iter().map(to_proto).collect::<Option<Vec<_>>>()?),
        F::Not(x) => ProtoFilter::AndNot(Box::new(to_proto(x)?)),
        _ => return None,
    })
}

fn from_proto(f: &ProtoFilter) -> Option<F> {
    Some(match f {
        ProtoFilter::Eq(a, v) => F::Eq(a.clone(), v.clone()),
        ProtoFilter::Cnt(a, v) => F::Cnt(a.clone(), v.clone()),
        ProtoFilter::Pres(a) => F::Pres(a.clone()),
        ProtoFilter::And(l) => F::And(l.iter().map(from_proto).collect::<Option<Vec<_>>>()?),
        ProtoFilter::Or(l) => F::Or(l.iter().map(from_proto).collect::<Option<Vec<_>>>()?),
        ProtoFilter::AndNot(x) => F::Not(Box::new(from_proto(x)?)),
        ProtoFilter::SelfUuid => return None,
    })
}

fn alphabet() -> Alphabet {
    let names: Vec<&str> = NAMES[..8].to_vec();
    let mut al = Alphabet::new(&[
        ("class", &["person", "account", "service_account", "group", "posixaccount", "dyngroup"]),
        ("name", &names),
        ("description", &DESCS),
        ("displayname", &["anna", "Ga", "bag", "bob"]),
        ("mail", &MAILS),
        ("gidnumber", &["70001", "70002", "80000"]),
    ]);
    al.stw_enw = false;
    al.self_uuid = false;
    al.invalid = false;
    al
}

/// Filters of the grammar restricted to what a dyngroup filter can express (no ordering terms).
fn arb_f() -> BoxedStrategy<F> {
    fn usable(f: &F) -> bool {
        match f {
            F::Lt(..) | F::Stw(..) | F::Enw(..) | F::SelfUuid | F::Invalid(_) => false,
            // substring terms on non-textual syntaxes are rejected by the server; keep them out
            F::Cnt(a, _) => !matches!(a.as_str(), "gidnumber" | "class"),
            F::And(l) | F::Or(l) => l.iter().all(usable),
            F::Not(x) => usable(x),
            _ => true,
        }
    }
    let al = alphabet();
    prop_oneof![
        3 => fil::arb_leaf(&al),
        4 => fil::arb_filter(&al, 2, 3),
        2 => fil::arb_filter(&al, 3, 3),
    ]
    .prop_filter("expressible as dyngroup filter", usable)
    .boxed()
}

fn apply_x<'n>(node: &'n mut Node, op: &'n XOp) -> gi::OpFuture<'n> {
    Box::pin(async move {
        match op {
            XOp::Base(o) => ops::apply(node, o).await,
            XOp::CreateDyn { i, name, f } => {
                let mut n = 0;
                let pf = to_proto(&strip_isolated_not(f, false, &mut n)).ok_or(OperationError::InvalidState)?;
                let mut e = pop::group(Ref::D(*i).uuid(), NAMES[*name as usize % NAMES.len()], &[]);
                e.add_ava(Attribute::Class, EntryClass::DynGroup.to_value());
                e.add_ava(Attribute::DynGroupFilter, Value::JsonFilt(pf));
                let mut w = node.qs.write(node.now()).await?;
                w.internal_create(vec![e])?;
                w.commit()?;
                node.clock += 1;
                Ok(())
            }
            XOp::SetFilter { d, f } => {
                let mut n = 0;
                let pf = to_proto(&strip_isolated_not(f, false, &mut n)).ok_or(OperationError::InvalidState)?;
                let mut w = node.qs.write(node.now()).await?;
                w.internal_modify(
                    &Filter::new_ignore_hidden(f_eq(Attribute::Uuid, PartialValue::Uuid(Ref::D(*d).uuid()))),
                    &ModifyList::new_list(vec![Modify::Purged(Attribute::DynGroupFilter), Modify::Present(Attribute::DynGroupFilter, Value::JsonFilt(pf))]),
                )?;
                w.commit()?;
                node.clock += 1;
                Ok(())
            }
        }
    })
}

pub const SIG_SEARCH: &str = "dynmember differs from a fresh search with the group's filter";
pub const SIG_EVAL: &str = "dynmember differs from the reference evaluation of the group's filter";
/// Known finding: entries that are themselves dynamic groups are skipped by the incremental
/// maintenance (post_create / post_modify partition them away) but are returned by the from-scratch
/// evaluation that runs when a group's own filter is (re)applied.
pub const SIG_DYN_AS_MEMBER: &str = "dynamic-group entries are not maintained as members of dynamic groups";

/// Compare, treating differences that consist only of dyngroup entries as the known finding.
fn judge(have: &BTreeSet<Uuid>, want: &BTreeSet<Uuid>, dyns: &BTreeSet<Uuid>, sig: &'static str, detail: impl Fn(Vec<Uuid>, Vec<Uuid>) -> String, log: &mut CaseLog, known: &mut Option<String>) {
    if have == want {
        return;
    }
    let missing: Vec<Uuid> = want.difference(have).copied().collect();
    let extra: Vec<Uuid> = have.difference(want).copied().collect();
    let only_dyn = missing.iter().chain(extra.iter()).all(|u| dyns.contains(u));
    if only_dyn {
        if known.is_none() {
            *known = Some(detail(missing, extra));
        }
    } else {
        log.fail(sig, detail(missing, extra));
    }
}

/// dynmember of every live dyngroup vs (a) fresh masked search, (b) reference evaluation.
/// Returns the number of (group, member) pairs checked.
async fn check_node(node: &Node, entries: &[gi::E], ctx: &str, log: &mut CaseLog, known: &mut Option<String>) -> usize {
    let live: Vec<&gi::E> = entries.iter().filter(|e| status_of(e) == Status::Live).collect();
    let models: Vec<MEntry> = live.iter().map(|e| MEntry::from_entry(e)).collect();
    let mut pairs = 0;
    let dyns: BTreeSet<Uuid> = live.iter().filter(|e| e.has_class(&EntryClass::DynGroup)).map(|e| e.get_uuid()).collect();
    let mut r = node.qs.read().await.expect("read");
    for g in live.iter().filter(|e| e.has_class(&EntryClass::DynGroup)) {
        let Some(pf) = g.get_ava_single_protofilter(Attribute::DynGroupFilter).cloned() else {
            log.fail("live dyngroup without a filter", format!("{ctx}: {}", g.get_uuid()));
            continue;
        };
        let have: BTreeSet<Uuid> = inv::refs(g, Attribute::DynMember);
        pairs += have.len();
        // (a) from scratch through the server's search, hidden entries masked as for any external search
        let fresh: Result<BTreeSet<Uuid>, OperationError> = (|| {
            let f = Filter::from_ro(&ident::internal(), &pf, &mut r)?;
            let fv = f.validate(r.get_schema()).map_err(OperationError::SchemaViolation)?.into_ignore_hidden();
            let res = r.search(&SearchEvent::new_internal(fv))?;
            Ok(res.iter().map(|e| e.get_uuid()).collect())
        })();
        match fresh {
            Ok(want) => judge(
                &have,
                &want,
                &dyns,
                SIG_SEARCH,
                |missing, extra| format!("{ctx}: dyngroup {} filter {pf:?}: missing {missing:?} extra {extra:?}", g.get_uuid()),
                log,
                known,
            ),
            Err(e) => log.fail("stored dyngroup filter cannot be searched", format!("{ctx}: {} {pf:?}: {e:?}", g.get_uuid())),
        }
        // (b) reference evaluation, where the stored filter is expressible in the harness AST
        if let Some(f) = from_proto(&pf) {
            if !f.has_isolated_not() {
                let want: BTreeSet<Uuid> = models.iter().filter(|m| fil::eval(&f, m, None)).map(|m| m.uuid).collect();
                judge(
                    &have,
                    &want,
                    &dyns,
                    SIG_EVAL,
                    |missing, extra| format!("{ctx}: dyngroup {} filter {}: missing {missing:?} extra {extra:?}", g.get_uuid(), f.render()),
                    log,
                    known,
                );
            }
        }
    }
    pairs
}

fn weights() -> Weights {
    Weights {
        create: 8,
        rename: 6,
        attr: 26,
        member: 1,
        manager: 0,
        oauth2: 0,
        dyngroup: 2, // the fixed-list filters of the shared language, plus D(_) as delete/revive target
        posix: 4,
        delete: 5,
        revive: 4,
        purge: 1,
        reindex: 1,
        advance: 1,
        domain_rename: 0,
        bad: 1,
        missing_refs: false,
        persons: 5,
        services: 2,
        groups: 3,
        ..Weights::default()
    }
}

fn arb_xop(w: &Weights) -> BoxedStrategy<XOp> {
    let name = 0u8..NAMES.len() as u8;
    prop_oneof![
        30 => ops::arb_op(w).prop_map(XOp::Base),
        3 => (0..N_DYN, name, arb_f()).prop_map(|(i, name, f)| XOp::CreateDyn { i, name, f }),
        5 => (0..N_DYN, arb_f()).prop_map(|(d, f)| XOp::SetFilter { d, f }),
    ]
    .boxed()
}

fn single(rt: &tokio::runtime::Runtime, c: &Case) -> Outcome {
    let mut log = CaseLog::new();
    let mut stripped = 0usize;
    for op in &c.ops {
        if let XOp::CreateDyn { f, .. } | XOp::SetFilter { f, .. } = op {
            let _ = strip_isolated_not(f, false, &mut stripped);
        }
    }
    rt.block_on(async {
        let mut node = Node::new().await;
        // snapshots of population dyngroup membership, to see entries move in and out
        let mut last: BTreeMap<Uuid, BTreeSet<Uuid>> = BTreeMap::new();
        let (mut moved_by_edit, mut filter_changes, mut dyn_created, mut pairs_max) = (0, 0, 0, 0);
        let mut known: Option<String> = None;
        let mut before = gi::read_all(&node).await;
        let (mut committed, mut _rejected) = (0usize, 0usize);
        for (step, op) in c.ops.iter().enumerate() {
            let res = apply_x(&mut node, op).await;
            let entries = gi::read_all(&node).await;
            if matches!(op, XOp::Base(Op::Advance { .. })) {
                continue;
            }
            match &res {
                Ok(()) => committed += 1,
                Err(e) => {
                    _rejected += 1;
                    let d = vf_world::dump::diff(
                        &gi::dump_of(&before),
                        &gi::dump_of(&entries),
                        &vf_world::dump::DiffOpts {
                            skip_attrs: &[],
                            ids: true,
                            changestate: true,
                        },
                    );
                    if !d.is_empty() {
                        log.fail(
                            "rejected operation left a trace",
                            format!("step {step} {op:?} -> Err({e:?}) but the database changed: {:?}", &d[..d.len().min(6)]),
                        );
                    }
                }
            }
            let mut now: BTreeMap<Uuid, BTreeSet<Uuid>> = BTreeMap::new();
            for g in entries.iter().filter(|e| status_of(e) == Status::Live && e.has_class(&EntryClass::DynGroup) && e.get_uuid().as_u128() >> 112 == 0xAAAA) {
                now.insert(g.get_uuid(), inv::refs(g, Attribute::DynMember));
            }
            if res.is_ok() {
                match op {
                    XOp::CreateDyn { .. } | XOp::Base(Op::CreateDynGroup { .. }) => dyn_created += 1,
                    XOp::SetFilter { .. } | XOp::Base(Op::SetDynFilter { .. }) => filter_changes += 1,
                    XOp::Base(Op::SetAttr { .. } | Op::AddAttr { .. } | Op::PurgeAttr { .. } | Op::Rename { .. } | Op::EnablePosix { .. } | Op::DisablePosix { .. }) => {
                        if now.iter().any(|(g, m)| last.get(g).map(|l| l != m).unwrap_or(false)) {
                            moved_by_edit += 1;
                        }
                    }
                    _ => {}
                }
            }
            last = now;
            let pairs = check_node(&node, &entries, &format!("after step {step} {op:?} -> {res:?}"), &mut log, &mut known).await;
            pairs_max = pairs_max.max(pairs);
            before = entries;
            if log.failed() {
                break;
            }
        }
        struct St {
            committed: usize,
        }
        let stats = St { committed };
        if dyn_created > 0 {
            log.class("dyngroup-created");
        }
        if filter_changes > 0 {
            log.class("filter-changed");
        }
        if moved_by_edit > 0 {
            log.class("entry-moved-in-or-out-by-edit");
        }
        if stripped > 0 {
            log.class("isolated-not-excluded(C01 known finding)");
        }
        if pairs_max > 0 {
            log.class("final-state-has-population-or-builtin-dynmembers");
        }
        log.class(format!("committed:{}", (stats.committed / 10) * 10));
        if moved_by_edit > 0 && filter_changes > 0 {
            log.nontrivial();
        }
        if let Some(msg) = known {
            log.class("dyngroup-as-candidate(known finding observed)");
            log.fail(SIG_DYN_AS_MEMBER, msg);
        }
    });
    log.finish()
}

fn replicated(rt: &tokio::runtime::Runtime, c: &RCase) -> Outcome {
    let mut log = CaseLog::new();
    rt.block_on(async {
        let mut cl = Cluster::new(2).await;
        let mut applied = 0;
        let mut known: Option<String> = None;
        for (i, s) in c.steps.iter().enumerate() {
            gi::untie_clocks(&mut cl);
            let r = cl.step(s).await;
            let node = match (s, &r) {
                (Step::Do { r: n, .. }, StepResult::Op(Ok(()))) => Some(*n as usize % 2),
                (Step::Repl { to, .. }, StepResult::Repl(ReplResult::Applied)) => {
                    applied += 1;
                    Some(*to as usize % 2)
                }
                _ => None,
            };
            if let Some(n) = node {
                let entries = gi::read_all(&cl.nodes[n]).await;
                check_node(&cl.nodes[n], &entries, &format!("replica {n} after step {i} {s:?} -> {r:?}"), &mut log, &mut known).await;
                if log.failed() {
                    break;
                }
            }
        }
        if applied > 0 {
            log.nontrivial();
            log.class("replicated-change-applied");
        }
        if let Some(msg) = known {
            log.fail(SIG_DYN_AS_MEMBER, msg);
        }
    });
    log.finish()
}

fn main() {
    let cx = Check::from_args("C18", "exploration");
    cx.rule(
        "random op histories (population prefix + creates, renames, attribute edits, posix enable/disable, deletes, revives of candidates; dynamic groups created with generated filters — eq/substring/presence over class, name, description, displayname, mail, gidnumber combined by AND/OR/AND-NOT, depth <= 3 — filter changes, dyngroup delete/revive) on a real in-memory server; \
         after EVERY op (and after every applied step of the 2-replica sub-check), for every live dynamic group (the two built-in ones included) dynmember must equal both a from-scratch search with the stored filter and the harness's own evaluation of that filter over all live entries; rejected ops must leave the dump unchanged. \
         filters with a NOT outside an AND-with-positive-term inherit the C01 known finding and are rewritten (NOT dropped) and counted. \
         non-trivial = an edit of a candidate entry changed some generated dyngroup's membership AND a filter change was committed; distinct by hash of the history",
    );
    cx.assume("the from-scratch search masks recycled/tombstone entries as every external search does; the reference evaluator is vf_world::fil (any-value semantics, case rules per syntax)");
    let w = weights();
    let n = cx.tier.pick(400, 10_000);
    let len = cx.tier.pick(20..55usize, 25..120usize);
    cx.prop(
        "single-server-histories",
        PropCfg::new(n).shrink(300),
        || {
            (ops::arb_prefix(&w), proptest::collection::vec((0..N_DYN, 0u8..16, arb_f()), 1..3), proptest::collection::vec(arb_xop(&w), len.clone())).prop_map(|(p, d, mut o)| {
                let mut ops: Vec<XOp> = p.into_iter().map(XOp::Base).collect();
                ops.extend(d.into_iter().enumerate().map(|(k, (_, name, f))| XOp::CreateDyn { i: k as u8, name: 12 + (name % 4), f }));
                ops.append(&mut o);
                Case { ops }
            })
        },
        srv::runtime,
        |rt, c| single(rt, c),
    );
    let mut w2 = weights();
    w2.dyngroup = 6;
    let n2 = cx.tier.pick(100, 2_500);
    let len2 = cx.tier.pick(10..35usize, 20..90usize);
    cx.prop(
        "two-replica-histories",
        PropCfg::new(n2).shrink(200),
        || ops::arb_steps(&w2, 2, len2.clone(), 3, 0).prop_map(|steps| RCase { steps }),
        srv::runtime,
        |rt, c| replicated(rt, c),
    );
    cx.require_class("dyngroup-created", 200);
    cx.require_class("filter-changed", 150);
    cx.require_class("entry-moved-in-or-out-by-edit", 80);
    cx.require_class("replicated-change-applied", 20);
    cx.finish();
}
