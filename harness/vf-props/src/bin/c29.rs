//! C29 — TOTP accepts exactly the current and previous code.
//!
//! `Totp::verify(code, t)` of the real implementation is compared, both directions, with an
//! independent RFC 4226/6238 reference (own HMAC over the bare hash functions, self-tested against
//! the RFC appendix vectors and Python-generated vectors incl. keys longer than the hash block).
use kanidmd_lib::credential::totp::{Totp, TotpAlgo, TotpDigits};
use proptest::prelude::*;
use serde::{Deserialize, Serialize};
use std::collections::BTreeSet;
use std::time::Duration;
use vf_core::{CaseLog, Check, Outcome, PropCfg};
use vf_world::g_auth::{ref_counter, ref_hotp, ref_selftest, RefAlgo};

#[derive(Debug, Clone, Serialize, Deserialize)]
struct Case {
    secret: Vec<u8>,
    /// 0 sha1, 1 sha256, 2 sha512
    algo: u8,
    eight: bool,
    step: u64,
    /// time = k*step + off (off < step), k >= 1
    k: u64,
    off: u64,
    nanos: u32,
    /// extra arbitrary candidate codes
    random: Vec<u32>,
}

fn algo_of(a: u8) -> (TotpAlgo, RefAlgo) {
    match a % 3 {
        0 => (TotpAlgo::Sha1, RefAlgo::Sha1),
        1 => (TotpAlgo::Sha256, RefAlgo::Sha256),
        _ => (TotpAlgo::Sha512, RefAlgo::Sha512),
    }
}

pub const SIG_LONG: &str = "secret longer than HMAC block: valid code rejected";

fn check(case: &Case) -> Outcome {
    let mut log = CaseLog::new();
    let (algo, ralgo) = algo_of(case.algo);
    let step = case.step.max(1);
    let off = case.off % step;
    let k = case.k.max(1);
    let Some(secs) = k.checked_mul(step).and_then(|v| v.checked_add(off)) else {
        return Outcome::discard();
    };
    let t = Duration::new(secs, case.nanos % 1_000_000_000);
    let (digits, ndig) = if case.eight { (TotpDigits::Eight, 8) } else { (TotpDigits::Six, 6) };
    let totp = Totp::new(case.secret.clone(), step, algo, digits);
    let c = ref_counter(secs, step);
    debug_assert!(c >= 1);
    let cur = ref_hotp(ralgo, &case.secret, c, ndig);
    let prev = ref_hotp(ralgo, &case.secret, c - 1, ndig);
    let accept: BTreeSet<u32> = [cur, prev].into_iter().collect();
    let modulus = 10u32.pow(ndig);

    // candidates: codes of counters c-3..c+3 and each +-1, the valid codes + modulus (same digits
    // when printed modulo, must not be accepted), boundaries, and the random ones.
    let mut cands: BTreeSet<u32> = BTreeSet::new();
    let mut neighbour_codes = BTreeSet::new();
    for d in -3i64..=3 {
        let cc = c as i64 + d;
        if cc < 0 {
            continue;
        }
        let code = ref_hotp(ralgo, &case.secret, cc as u64, ndig);
        if d != 0 && d != -1 {
            neighbour_codes.insert(code);
        }
        cands.insert(code);
        cands.insert(code.wrapping_add(1));
        cands.insert(code.wrapping_sub(1));
    }
    for v in [cur, prev] {
        cands.insert(v.wrapping_add(modulus));
        if ndig == 6 {
            cands.insert(v + 10_000_000 * 7);
        }
    }
    cands.extend([0, modulus - 1, modulus, u32::MAX, 0x7fff_ffff, 0x8000_0000]);
    cands.extend(case.random.iter().copied());

    // the "long secret" defect: with a secret longer than the hash block NOTHING is accepted
    let long = case.secret.len() > ralgo.block() && !cands.iter().any(|c| totp.verify(*c, t));
    for code in &cands {
        let got = totp.verify(*code, t);
        let want = accept.contains(code);
        if got == want {
            continue;
        }
        if want && !got {
            if long {
                log.fail(
                    SIG_LONG,
                    format!(
                        "secret {} bytes > block {} ({ralgo:?}): code {code} of counter {} at t={secs}s step {step} rejected",
                        case.secret.len(),
                        ralgo.block(),
                        if *code == cur { c } else { c - 1 }
                    ),
                );
            } else if *code == cur {
                log.fail(
                    "rejects the code of the current time step",
                    format!("t={secs}s step {step} counter {c} {ralgo:?} {ndig} digits: code {code} rejected"),
                );
            } else {
                log.fail(
                    "rejects the code of the previous time step",
                    format!("t={secs}s step {step} counter {} {ralgo:?} {ndig} digits: code {code} rejected", c - 1),
                );
            }
        } else {
            let which = if neighbour_codes.contains(code) {
                "accepts the code of a time step other than current/previous"
            } else {
                "accepts a code that is not the RFC 6238 code of the current or previous step"
            };
            log.fail(
                which,
                format!("t={secs}s step {step} counter {c} {ralgo:?} {ndig} digits: code {code} accepted, valid = {accept:?}"),
            );
        }
    }
    // classes
    let b = ralgo.block();
    log.class(match case.secret.len() {
        0 => "secret:empty".to_string(),
        l if l < b => "secret:<block".to_string(),
        l if l == b => "secret:=block".to_string(),
        _ => "secret:>block".to_string(),
    });
    log.class(format!("algo:{ralgo:?}"));
    log.class(format!("digits:{ndig}"));
    if off == 0 {
        log.class("time:first-second-of-step");
    }
    if off == step - 1 {
        log.class("time:last-second-of-step");
    }
    if c == 1 {
        log.class("time:second-step-after-epoch");
    }
    if cur == prev {
        log.class("current==previous code");
    }
    if cur < modulus / 10 || prev < modulus / 10 {
        log.class("code-with-leading-zero");
    }
    // every case checks both valid codes and >= 10 neighbouring-window codes
    log.nontrivial();
    log.finish()
}

fn arb_secret() -> impl Strategy<Value = Vec<u8>> {
    prop_oneof![
        3 => proptest::collection::vec(any::<u8>(), 0..=200),
        2 => proptest::sample::select(vec![0usize, 1, 16, 20, 32, 63, 64, 65, 127, 128, 129, 200])
            .prop_flat_map(|n| proptest::collection::vec(any::<u8>(), n..=n)),
        1 => (0usize..=200, any::<u8>()).prop_map(|(n, b)| vec![b; n]),
    ]
}

fn arb_case() -> impl Strategy<Value = Case> {
    let step = prop_oneof![
        4 => Just(30u64),
        2 => Just(60u64),
        3 => 30u64..=3600,
        1 => Just(3600u64),
    ];
    // up to year 2100
    let maxsecs = 4_102_444_800u64;
    (
        arb_secret(),
        0u8..3,
        any::<bool>(),
        step,
        any::<u64>(),
        prop_oneof![2 => Just(0u64), 2 => Just(u64::MAX), 6 => any::<u64>()],
        prop_oneof![Just(0u32), Just(999_999_999u32), 0u32..1_000_000_000],
        proptest::collection::vec(
            prop_oneof![3 => 0u32..100_000_000, 1 => any::<u32>()],
            20,
        ),
        prop_oneof![1 => Just(true), 9 => Just(false)],
    )
        .prop_map(move |(secret, algo, eight, step, kraw, offraw, nanos, random, early)| {
            let kmax = maxsecs / step;
            let k = if early { 1 + kraw % 3 } else { 1 + kraw % kmax };
            let off = if offraw == u64::MAX { step - 1 } else { offraw % step };
            Case {
                secret,
                algo,
                eight,
                step,
                k,
                off,
                nanos,
                random,
            }
        })
}

fn main() {
    let cx = Check::from_args("C29", "exploration");
    cx.rule(
        "random tokens: secret 0..200 bytes (boundary lengths 63/64/65/127/128/129 boosted), SHA1/SHA256/SHA512, 6/8 digits, step 30..3600, \
         time = k*step+off with k>=1 up to year 2100 (first/last second of a step boosted), sub-second nanos; per case EVERY candidate is judged both ways: \
         reference codes of counters c-3..c+3, each +-1, valid code + 10^digits, range boundaries, 20 random codes; \
         oracle = own RFC 2104 HMAC + RFC 4226 truncation + RFC 6238 counter (self-tested on RFC vectors and Python hmac vectors); verify(code,t) <=> code in {ref(c), ref(c-1)}. \
         every case is non-trivial (both valid codes and >=10 neighbouring-window codes are judged); distinct by hash",
    );
    cx.assume("the sha1/sha2 crates compute SHA-1/SHA-256/SHA-512 correctly (HMAC, truncation and counter logic are the harness' own)");
    match ref_selftest() {
        Ok(n) => cx.extra("reference_selftest_vectors", serde_json::json!(n)),
        Err(e) => {
            cx.inconclusive(&format!("reference self-test failed: {e}"));
            cx.finish();
        }
    }
    let n = cx.tier.pick(20_000, 2_000_000);
    cx.prop("random-tokens", PropCfg::new(n), arb_case, || (), |_, c| check(c));
    cx.require_class("secret:>block", 1000);
    cx.require_class("secret:=block", 200);
    cx.require_class("time:first-second-of-step", 500);
    cx.require_class("time:last-second-of-step", 500);
    cx.require_class("time:second-step-after-epoch", 100);
    cx.finish();
}
