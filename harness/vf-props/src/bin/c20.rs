//! C20 — UUIDs are immutable and the system range is protected.
//!
//! A read-write USER identity that belongs to a group holding a generated grant-everything access
//! control profile (target `class=*`, every attribute and class for search / create / modify /
//! delete) sends requests that try to change uuids (every Modify kind, alone, mixed, and through
//! batch modify), create entries with reserved / existing / boundary uuids, and delete built-in
//! entries. Whatever each request returns, afterwards: the (entry id -> uuid) relation of every
//! pre-existing entry is unchanged, no new live entry has a uuid below the dynamic range, and every
//! reserved-range entry that was live is still live.
use kanidm_proto::internal::Filter as ProtoFilter;
use kanidmd_lib::event::DeleteEvent;
use kanidmd_lib::modify::{Modify, ModifyList};
use kanidmd_lib::prelude::*;
use kanidmd_lib::schema::SchemaTransaction;
use kanidmd_lib::value::Value;
use kanidmd_lib::valueset::{ValueSet, ValueSetUuid};
use kanidmd_lib::verif_hooks::ident;
use proptest::prelude::*;
use serde::{Deserialize, Serialize};
use std::collections::{BTreeMap, BTreeSet};
use vf_core::{CaseLog, Check, Outcome, PropCfg};
use vf_world::dump::{status_of, Status};
use vf_world::g_integrity as gi;
use vf_world::ops::Node;
use vf_world::{pop, srv};

const DYN_MIN: u128 = 1u128 << 48; // DYNAMIC_RANGE_MINIMUM_UUID = 00000000-0000-0000-0001-000000000000

/// uuids of interest around the boundary of the reserved range
fn boundary_uuid(i: u8) -> Uuid {
    let v: [u128; 12] = [
        0,
        1,
        0xfff0_0000_0123,
        0x7fff_ffff_ffff,
        DYN_MIN - 2,
        DYN_MIN - 1,
        DYN_MIN,
        DYN_MIN + 1,
        DYN_MIN + 2,
        0xffff_ffff_fffe, // just below UUID_ANONYMOUS
        0x0000_ffff_0000,
        0xffff_0000_0042,
    ];
    Uuid::from_u128(v[i as usize % v.len()])
}

#[derive(Debug, Clone, Copy, Serialize, Deserialize, PartialEq, Eq)]
enum T {
    P(u8),
    G(u8),
    User,
    GrantGroup,
    /// index into the sorted list of live reserved-range entries
    Builtin(u8),
}

#[derive(Debug, Clone, Serialize, Deserialize)]
enum UVal {
    /// the target's own uuid
    Own,
    Of(T),
    Boundary(u8),
    Fresh(u8),
}

#[derive(Debug, Clone, Serialize, Deserialize)]
enum M {
    UuidPresent(UVal),
    UuidRemoved(UVal),
    UuidPurged,
    UuidSet(UVal),
    UuidAssert(UVal),
    /// harmless companion modification
    Description(u8),
    /// rename in the same request (so that a changed uuid would not collide with the entry's own
    /// unique name/spn)
    Rename(u8),
    AddClassBuiltin,
}

#[derive(Debug, Clone, Serialize, Deserialize)]
enum CU {
    Absent,
    Boundary(u8),
    Existing(T),
    Dynamic(u8),
}

#[derive(Debug, Clone, Serialize, Deserialize)]
enum Req {
    Modify { t: T, mods: Vec<M> },
    BatchModify { items: Vec<(T, Vec<M>)> },
    Create { uuid: CU, group: bool, second: Option<CU>, builtin_class: bool },
    Delete { t: T },
    /// delete by a broad filter
    DeleteClass { c: u8 },
    DeleteUuidBelow { boundary: u8 },
}

#[derive(Debug, Clone, Serialize, Deserialize)]
struct Case {
    /// optional second, narrower profile (index into a list of target scopes)
    extra_acp: Option<u8>,
    reqs: Vec<Req>,
}

const N_P: u8 = 4;
const N_G: u8 = 3;
fn user_uuid() -> Uuid {
    pop::uuid_of(pop::Kind::Other, 0x301)
}
fn grant_group_uuid() -> Uuid {
    pop::uuid_of(pop::Kind::Other, 0x300)
}
fn fresh_uuid(i: u8) -> Uuid {
    pop::uuid_of(pop::Kind::Other, 0x400 + i as u32)
}

struct World {
    node: Node,
    builtins: Vec<Uuid>,
}

impl World {
    fn target(&self, t: &T) -> Uuid {
        match t {
            T::P(i) => pop::person_uuid((*i % N_P) as u32),
            T::G(i) => pop::group_uuid((*i % N_G) as u32),
            T::User => user_uuid(),
            T::GrantGroup => grant_group_uuid(),
            T::Builtin(i) => self.builtins[(*i as usize * 7) % self.builtins.len()],
        }
    }
    fn uval(&self, t: &T, v: &UVal) -> Uuid {
        match v {
            UVal::Own => self.target(t),
            UVal::Of(o) => self.target(o),
            UVal::Boundary(i) => boundary_uuid(*i),
            UVal::Fresh(i) => fresh_uuid(*i),
        }
    }
    fn mods(&self, t: &T, ms: &[M]) -> ModifyList<ModifyInvalid> {
        let mut out = Vec::new();
        for m in ms {
            let one = match m {
                M::UuidPresent(v) => Modify::Present(Attribute::Uuid, Value::Uuid(self.uval(t, v))),
                M::UuidRemoved(v) => Modify::Removed(Attribute::Uuid, PartialValue::Uuid(self.uval(t, v))),
                M::UuidPurged => Modify::Purged(Attribute::Uuid),
                M::UuidSet(v) => Modify::Set(Attribute::Uuid, ValueSetUuid::new(self.uval(t, v)) as ValueSet),
                M::UuidAssert(v) => Modify::Assert(Attribute::Uuid, PartialValue::Uuid(self.uval(t, v))),
                M::Description(i) => Modify::Present(Attribute::Description, Value::new_utf8s(["x", "y", "z"][*i as usize % 3])),
                M::AddClassBuiltin => Modify::Present(Attribute::Class, EntryClass::Builtin.to_value()),
                M::Rename(i) => {
                    out.push(Modify::Purged(Attribute::Name));
                    Modify::Present(Attribute::Name, Value::new_iname(&format!("c20rn{}", i % 8)))
                }
            };
            out.push(one);
        }
        ModifyList::new_list(out)
    }
}

async fn setup(extra_acp: Option<u8>) -> World {
    let node = Node::new().await;
    let (attrs, classes): (Vec<String>, Vec<String>) = {
        let r = node.qs.read().await.expect("read");
        let s = r.get_schema();
        (s.get_attributes().keys().map(|a| a.to_string()).collect(), s.get_classes().keys().map(|c| c.to_string()).collect())
    };
    let mut w = node.qs.write(node.now()).await.expect("write");
    let mut ents = Vec::new();
    for i in 0..N_P {
        ents.push(pop::person(pop::person_uuid(i as u32), &format!("c20p{i}")));
    }
    for i in 0..N_G {
        ents.push(pop::group(pop::group_uuid(i as u32), &format!("c20g{i}"), &[]));
    }
    ents.push(pop::person(user_uuid(), "c20user"));
    w.internal_create(ents).expect("population");
    w.internal_create(vec![pop::group(grant_group_uuid(), "c20grant", &[user_uuid()])]).expect("grant group");
    let acp = |uuid: Uuid, name: &str, scope: ProtoFilter| {
        let mut e: pop::NewEntry = kanidmd_lib::entry::Entry::new();
        for c in [
            EntryClass::Object,
            EntryClass::AccessControlProfile,
            EntryClass::AccessControlSearch,
            EntryClass::AccessControlModify,
            EntryClass::AccessControlCreate,
            EntryClass::AccessControlDelete,
            EntryClass::AccessControlReceiverGroup,
            EntryClass::AccessControlTargetScope,
        ] {
            e.add_ava(Attribute::Class, c.to_value());
        }
        e.add_ava(Attribute::Name, Value::new_iname(name));
        e.add_ava(Attribute::Uuid, Value::Uuid(uuid));
        e.add_ava(Attribute::Description, Value::new_utf8s("c20 grant-everything profile"));
        e.add_ava(Attribute::AcpReceiverGroup, Value::Refer(grant_group_uuid()));
        e.add_ava(Attribute::AcpTargetScope, Value::JsonFilt(scope));
        for a in &attrs {
            let v = Value::new_iutf8(a);
            e.add_ava(Attribute::AcpSearchAttr, v.clone());
            e.add_ava(Attribute::AcpModifyPresentAttr, v.clone());
            e.add_ava(Attribute::AcpModifyRemovedAttr, v.clone());
            e.add_ava(Attribute::AcpCreateAttr, v);
        }
        for c in &classes {
            let v = Value::new_iutf8(c);
            e.add_ava(Attribute::AcpModifyClass, v.clone());
            e.add_ava(Attribute::AcpModifyPresentClass, v.clone());
            e.add_ava(Attribute::AcpModifyRemoveClass, v.clone());
            e.add_ava(Attribute::AcpCreateClass, v);
        }
        e
    };
    let mut acps = vec![acp(pop::uuid_of(pop::Kind::Other, 0x302), "c20_acp_all", ProtoFilter::Pres("class".into()))];
    if let Some(k) = extra_acp {
        let scope = match k % 4 {
            0 => ProtoFilter::Eq("class".into(), "builtin".into()),
            1 => ProtoFilter::Eq("class".into(), "group".into()),
            2 => ProtoFilter::Eq("uuid".into(), UUID_ADMIN.to_string()),
            _ => ProtoFilter::Or(vec![ProtoFilter::Eq("class".into(), "system".into()), ProtoFilter::Eq("class".into(), "person".into())]),
        };
        acps.push(acp(pop::uuid_of(pop::Kind::Other, 0x303), "c20_acp_extra", scope));
    }
    w.internal_create(acps).expect("acp");
    w.commit().expect("setup commit");
    let mut node = node;
    node.clock += 1;
    let all = gi::read_all(&node).await;
    let mut builtins: Vec<Uuid> = all.iter().filter(|e| status_of(e) == Status::Live && e.get_uuid().as_u128() < DYN_MIN).map(|e| e.get_uuid()).collect();
    builtins.sort();
    World { node, builtins }
}

fn new_entry(u: Option<Uuid>, group: bool, tag: usize, builtin_class: bool) -> pop::NewEntry {
    let name = format!("c20new{tag}");
    let mut e = if group { pop::group(Uuid::nil(), &name, &[]) } else { pop::person(Uuid::nil(), &name) };
    e.remove_ava(Attribute::Uuid);
    if let Some(u) = u {
        e.add_ava(Attribute::Uuid, Value::Uuid(u));
    }
    if builtin_class {
        e.add_ava(Attribute::Class, EntryClass::Builtin.to_value());
    }
    e
}

async fn run_req(w: &mut World, step: usize, req: &Req) -> Result<(), OperationError> {
    let user = {
        let mut r = w.node.qs.read().await?;
        r.internal_search_uuid(user_uuid())?
    };
    let idt = ident::user_readwrite(user);
    let cu = |w: &World, c: &CU| match c {
        CU::Absent => None,
        CU::Boundary(i) => Some(boundary_uuid(*i)),
        CU::Existing(t) => Some(w.target(t)),
        CU::Dynamic(i) => Some(fresh_uuid(*i)),
    };
    let mut txn = w.node.qs.write(w.node.now()).await?;
    let res: Result<(), OperationError> = (|| match req {
        Req::Modify { t, mods } => {
            let f = Filter::new_ignore_hidden(f_eq(Attribute::Uuid, PartialValue::Uuid(w.target(t))));
            txn.impersonate_modify(&f, &f, &w.mods(t, mods), &idt)
        }
        Req::BatchModify { items } => {
            let mut modset = BTreeMap::new();
            for (t, ms) in items {
                let ml = w.mods(t, ms).validate(txn.get_schema()).map_err(OperationError::SchemaViolation)?;
                modset.insert(w.target(t), ml);
            }
            txn.batch_modify(&BatchModifyEvent { ident: idt.clone(), modset })
        }
        Req::Create { uuid, group, second, builtin_class } => {
            let mut ents = vec![new_entry(cu(w, uuid), *group, step * 2, *builtin_class)];
            if let Some(s) = second {
                ents.push(new_entry(cu(w, s), !*group, step * 2 + 1, false));
            }
            txn.impersonate_create(&idt, ents)
        }
        Req::Delete { t } => {
            let f = Filter::new(f_eq(Attribute::Uuid, PartialValue::Uuid(w.target(t))));
            let de = DeleteEvent::from_parts(idt.clone(), &f, &mut txn)?;
            txn.delete(&de)
        }
        Req::DeleteClass { c } => {
            let cls = ["builtin", "system", "group", "access_control_profile", "object", "domain_info", "dyngroup"][*c as usize % 7];
            let f = Filter::new(f_eq(Attribute::Class, PartialValue::new_iutf8(cls)));
            let de = DeleteEvent::from_parts(idt.clone(), &f, &mut txn)?;
            txn.delete(&de)
        }
        Req::DeleteUuidBelow { boundary } => {
            let f = Filter::new(f_lt(Attribute::Uuid, PartialValue::Uuid(boundary_uuid(*boundary))));
            let de = DeleteEvent::from_parts(idt.clone(), &f, &mut txn)?;
            txn.delete(&de)
        }
    })();
    match res {
        Ok(()) => {
            txn.commit()?;
            w.node.clock += 1;
            Ok(())
        }
        Err(e) => {
            drop(txn);
            Err(e)
        }
    }
}

fn touches(req: &Req) -> (bool, bool, bool) {
    // (uuid attribute, reserved uuid value, built-in target)
    let m_uuid = |ms: &Vec<M>| ms.iter().any(|m| !matches!(m, M::Description(_) | M::AddClassBuiltin | M::Rename(_)));
    let bt = |t: &T| matches!(t, T::Builtin(_));
    let reserved_cu = |c: &CU| match c {
        CU::Boundary(i) => boundary_uuid(*i).as_u128() < DYN_MIN,
        CU::Existing(t) => bt(t),
        _ => false,
    };
    match req {
        Req::Modify { t, mods } => (m_uuid(mods), false, bt(t)),
        Req::BatchModify { items } => (items.iter().any(|(_, m)| m_uuid(m)), false, items.iter().any(|(t, _)| bt(t))),
        Req::Create { uuid, second, .. } => (false, reserved_cu(uuid) || second.as_ref().map(reserved_cu).unwrap_or(false), false),
        Req::Delete { t } => (false, false, bt(t)),
        Req::DeleteClass { c } => (false, false, matches!(c % 7, 0 | 1 | 3 | 4 | 5 | 6)),
        Req::DeleteUuidBelow { .. } => (false, false, true),
    }
}

fn run(rt: &tokio::runtime::Runtime, c: &Case) -> Outcome {
    let mut log = CaseLog::new();
    rt.block_on(async {
        let mut w = setup(c.extra_acp).await;
        let mut before = gi::read_all(&w.node).await;
        let (mut n_uuid, mut n_res, mut n_bt, mut ok_plain, mut ok_create, mut ok_delete) = (0, 0, 0, 0, 0, 0);
        for (step, req) in c.reqs.iter().enumerate() {
            let res = run_req(&mut w, step, req).await;
            let after = gi::read_all(&w.node).await;
            let (tu, tr, tb) = touches(req);
            n_uuid += tu as usize;
            n_res += tr as usize;
            n_bt += tb as usize;
            if res.is_ok() {
                match req {
                    Req::Modify { mods, .. } if mods.iter().all(|m| matches!(m, M::Description(_) | M::UuidAssert(UVal::Own))) => ok_plain += 1,
                    Req::Create { .. } => ok_create += 1,
                    Req::Delete { .. } | Req::DeleteClass { .. } => ok_delete += 1,
                    _ => {}
                }
            }
            let ctx = format!("step {step} {req:?} -> {res:?}");
            if std::env::var("VERIF_TRACE").is_ok() {
                println!("{ctx}");
            }
            // 1. the (entry id -> uuid) relation of every pre-existing entry is unchanged
            let by_id: BTreeMap<u64, &gi::E> = after.iter().map(|e| (e.get_id(), e)).collect();
            for e in &before {
                match by_id.get(&e.get_id()) {
                    None => log.fail("entry vanished after a user request", format!("{ctx}: id {} uuid {}", e.get_id(), e.get_uuid())),
                    Some(a) if a.get_uuid() != e.get_uuid() => log.fail(
                        "uuid of an existing entry changed",
                        format!("{ctx}: entry id {} had uuid {}, now {}", e.get_id(), e.get_uuid(), a.get_uuid()),
                    ),
                    Some(a) => {
                        // the stored uuid attribute must agree with the entry's identity
                        let vals = vf_world::dump::proto_values(a, Attribute::Uuid);
                        if vals != vec![e.get_uuid().to_string()] {
                            log.fail("uuid attribute of an existing entry changed", format!("{ctx}: entry {} now stores uuid values {vals:?}", e.get_uuid()));
                        }
                    }
                }
            }
            // 2. no new live entry in the reserved range
            let old_ids: BTreeSet<u64> = before.iter().map(|e| e.get_id()).collect();
            for a in after.iter().filter(|a| !old_ids.contains(&a.get_id())) {
                if a.get_uuid().as_u128() < DYN_MIN {
                    log.fail(
                        "user request created an entry in the reserved uuid range",
                        format!("{ctx}: new entry {} ({:?}) classes {:?}", a.get_uuid(), status_of(a), vf_world::dump::proto_values(a, Attribute::Class)),
                    );
                }
                if res.is_err() {
                    log.fail("rejected operation left a trace", format!("{ctx}: new entry {}", a.get_uuid()));
                }
            }
            // 3. every reserved-range (built-in) entry that was live is still live
            for e in before.iter().filter(|e| status_of(e) == Status::Live && e.get_uuid().as_u128() < DYN_MIN) {
                if let Some(a) = by_id.get(&e.get_id()) {
                    if status_of(a) != Status::Live {
                        log.fail("built-in entry deleted by a user request", format!("{ctx}: {} is now {:?}", e.get_uuid(), status_of(a)));
                    }
                }
            }
            if log.failed() {
                break;
            }
            before = after;
        }
        if n_uuid > 0 {
            log.class("request-on-uuid-attribute");
        }
        if n_res > 0 {
            log.class("create-with-reserved-uuid");
        }
        if n_bt > 0 {
            log.class("request-on-built-in-target");
        }
        if ok_plain > 0 {
            log.class("grant-works:plain-modify-accepted");
        }
        if ok_create > 0 {
            log.class("grant-works:create-accepted");
        }
        if ok_delete > 0 {
            log.class("grant-works:delete-accepted");
        }
        if (n_uuid + n_res + n_bt) > 0 && (ok_plain + ok_create + ok_delete) > 0 {
            log.nontrivial();
        }
    });
    log.finish()
}

fn arb_t() -> BoxedStrategy<T> {
    prop_oneof![
        3 => (0..N_P).prop_map(T::P),
        2 => (0..N_G).prop_map(T::G),
        1 => Just(T::User),
        1 => Just(T::GrantGroup),
        5 => any::<u8>().prop_map(T::Builtin),
    ]
    .boxed()
}

fn arb_uval() -> BoxedStrategy<UVal> {
    prop_oneof![
        2 => Just(UVal::Own),
        2 => arb_t().prop_map(UVal::Of),
        3 => (0u8..12).prop_map(UVal::Boundary),
        2 => (0u8..6).prop_map(UVal::Fresh),
    ]
    .boxed()
}

fn arb_m() -> BoxedStrategy<M> {
    prop_oneof![
        3 => arb_uval().prop_map(M::UuidPresent),
        3 => arb_uval().prop_map(M::UuidRemoved),
        2 => Just(M::UuidPurged),
        3 => arb_uval().prop_map(M::UuidSet),
        2 => arb_uval().prop_map(M::UuidAssert),
        4 => (0u8..3).prop_map(M::Description),
        2 => any::<u8>().prop_map(M::Rename),
        1 => Just(M::AddClassBuiltin),
    ]
    .boxed()
}

fn arb_cu() -> BoxedStrategy<CU> {
    prop_oneof![
        1 => Just(CU::Absent),
        5 => (0u8..12).prop_map(CU::Boundary),
        2 => arb_t().prop_map(CU::Existing),
        3 => (0u8..6).prop_map(CU::Dynamic),
    ]
    .boxed()
}

fn arb_req() -> BoxedStrategy<Req> {
    prop_oneof![
        8 => (arb_t(), proptest::collection::vec(arb_m(), 1..4)).prop_map(|(t, mods)| Req::Modify { t, mods }),
        2 => (arb_t(), 0u8..3).prop_map(|(t, d)| Req::Modify { t, mods: vec![M::Description(d)] }),
        3 => proptest::collection::vec((arb_t(), proptest::collection::vec(arb_m(), 1..3)), 1..4).prop_map(|items| Req::BatchModify { items }),
        6 => (arb_cu(), any::<bool>(), proptest::option::weighted(0.3, arb_cu()), proptest::bool::weighted(0.2))
            .prop_map(|(uuid, group, second, builtin_class)| Req::Create { uuid, group, second, builtin_class }),
        5 => arb_t().prop_map(|t| Req::Delete { t }),
        1 => (0u8..7).prop_map(|c| Req::DeleteClass { c }),
        1 => (0u8..12).prop_map(|boundary| Req::DeleteUuidBelow { boundary }),
    ]
    .boxed()
}

fn main() {
    let cx = Check::from_args("C20", "exploration");
    cx.rule(
        "per case a fresh server with a generated grant-everything access control profile (receiver: a group holding the acting read-write user; target class=*; every attribute/class for search, create, modify and delete) and optionally a second narrower one; 8-25 user requests: every Modify kind (present/removed/purged/set/assert) on `uuid` with own/other/boundary/fresh values, alone, mixed with harmless mods and through batch modify; creates with absent, dynamic, existing and reserved-range uuids at the boundary (min-2 .. min+2, 0, anonymous-1) incl. class builtin and two-entry creates; deletes of built-in entries by uuid, by class and by uuid range. \
         oracle after EVERY request, whatever it returned: the (entry id -> uuid) relation and the stored uuid attribute of every pre-existing entry are unchanged, no new entry has a uuid below 00000000-0000-0000-0001-000000000000, every live reserved-range entry is still live, a refused request adds nothing. \
         non-trivial = the case contains a request on the uuid attribute / a reserved uuid / a built-in target AND at least one ordinary request (plain modify, create, delete) was accepted, which shows that the grant is effective; distinct by hash of the case",
    );
    cx.assume("requests are issued through the server's impersonation entry points (create / modify / batch modify / delete events carrying a user identity), i.e. below the HTTP layer");
    let n = cx.tier.pick(500, 12_000);
    let len = cx.tier.pick(8..25usize, 15..60usize);
    cx.prop(
        "user-requests-under-grant-all",
        PropCfg::new(n).shrink(300),
        || (proptest::option::weighted(0.4, 0u8..4), proptest::collection::vec(arb_req(), len.clone())).prop_map(|(extra_acp, reqs)| Case { extra_acp, reqs }),
        srv::runtime,
        |rt, c| run(rt, c),
    );
    cx.require_class("request-on-uuid-attribute", 300);
    cx.require_class("create-with-reserved-uuid", 200);
    cx.require_class("request-on-built-in-target", 300);
    cx.require_class("grant-works:plain-modify-accepted", 100);
    cx.require_class("grant-works:create-accepted", 200);
    cx.require_class("grant-works:delete-accepted", 200);
    cx.finish();
}
