//! Helpers of group 'storage' (see GUIDE.md).
