//! Helpers of group 'storage' (C03, C12, C13).
//!
//! * `val`   — generated value ASTs for every reachable `SyntaxType`, translation to kanidm values
//!             through public constructors, deep (field-by-field) comparison and behaviour probes (C12);
//! * `idx`   — from-scratch reference index / name tables and the comparison with the raw tables (C03);
//! * `bak`   — backup / restore helpers (C12, C13).
pub mod val {
    use kanidm_lib_crypto::CryptoPolicy;
    use kanidm_proto::internal::{Filter as ProtoFilter, ImageType, ImageValue, UiHint};
    use kanidmd_lib::credential::apppwd::ApplicationPassword;
    use kanidmd_lib::credential::totp::{Totp, TotpAlgo, TotpDigits};
    use kanidmd_lib::credential::{Credential, Password};
    use kanidmd_lib::prelude::*;
    use kanidmd_lib::value::{
        Address, ApiToken, ApiTokenScope, AuthType, CredUpdateSessionPerms, CredentialType, IndexType, IntentTokenState, KeyStatus, KeyUsage,
        Oauth2Session, OauthClaimMapJoin, Session, SessionExtMetadata, SessionScope, SessionState, SyntaxType,
    };
    use kanidmd_lib::valueset::{self, ValueSet};
    use kanidmd_lib::verif_hooks::{ident, storage as hk};
    use proptest::prelude::*;
    use serde::{Deserialize, Serialize};
    use std::collections::{BTreeMap, BTreeSet};
    use time::OffsetDateTime;

    // -----------------------------------------------------------------------------------------
    // corpora

    /// Imported password hashes with their cleartext (one per supported import format).
    pub const IMPORTS: &[(&str, &str, &str)] = &[
        ("django-pbkdf2-sha256", "pbkdf2_sha256$36000$xIEozuZVAoYm$uW1b35DUKyhvQAf1mBqMvoBDcqSD06juzyO/nmyV0+w=", "eicieY7ahchaoCh0eeTa"),
        ("ds-sha1", "{SHA}W6ph5Mm5Pz8GgiULbPgzG37mj9g=", "password"),
        ("ds-ssha1", "{SSHA}EyzbBiP4u4zxOrLpKTORI/RX3HC6TCTJtnVOCQ==", "password"),
        ("ds-sha256", "{SHA256}XohImNooBHFR0OVvjcYpJ3NgPQ1qq73WKhHvch0VQtg=", "password"),
        ("ds-ssha256", "{SSHA256}luYWfFJOZgxySTsJXHgIaCYww4yMpu6yest69j/wO5n5OycuHFV/GQ==", "password"),
        ("ds-sha512", "{SHA512}sQnzu7wkTrgkQZF+0G1hi5AI3Qmzvv0bXgc5THBqi7mAsdd4Xll27ASbRt9fEyavWi6m0QP9B8lThf+rDKy8hg==", "password"),
        ("ds-ssha512", "{SSHA512}JwrSUHkI7FTAfHRVR6KoFlSN0E3dmaQWARjZ+/UsShYlENOqDtFVU77HJLLrY2MuSp0jve52+pwtdVl2QUAHukQ0XUf5LDtM", "password"),
        ("openldap-pbkdf2", "{PBKDF2}10000$IlfapjA351LuDSwYC0IQ8Q$saHqQTuYnjJN/tmAndT.8mJt.6w", "password"),
        ("openldap-pbkdf2-sha1", "{PBKDF2-SHA1}10000$ZBEH6B07rgQpJSikyvMU2w$TAA03a5IYkz1QlPsbJKvUsTqNV", "password"),
        ("openldap-pbkdf2-sha256", "{PBKDF2-SHA256}10000$henZGfPWw79Cs8ORDeVNrQ$1dTJy73v6n3bnTmTZFghxHXHLsAzKaAy8SksDfZBPIw", "password"),
        (
            "openldap-pbkdf2-sha512",
            "{PBKDF2-SHA512}10000$Je1Uw19Bfv5lArzZ6V3EPw$g4T/1sqBUYWl9o93MVnyQ/8zKGSkPbKaXXsT8WmysXQJhWy8MRP2JFudSL.N9RklQYgDPxPjnfum/F2f/TrppA",
            "password",
        ),
        ("openldap-argon2", "{ARGON2}$argon2id$v=19$m=65536,t=2,p=1$IyTQMsvzB2JHDiWx8fq7Ew$VhYOA7AL0kbRXI5g2kOyyp8St1epkNj7WZyUY4pAIQQ", "password"),
        ("ipa-nthash", "ipaNTHash: iEb36u6PsRetBr3YMLdYbA", "password"),
        ("samba-nthash", "sambaNTPassword: 8846F7EAEE8FB117AD06BDD830B7586C", "password"),
        ("crypt-md5", "{crypt}$1$zaRIAsoe$7887GzjDTrst0XbDPpF5m.", "password"),
        ("crypt-sha256", "{crypt}$5$3UzV7Sut8EHCUxlN$41V.jtMQmFAOucqI4ImFV43r.bRLjPlN.hyfoCdmGE2", "password"),
        (
            "crypt-sha512",
            "{crypt}$6$aXn8azL8DXUyuMvj$9aJJC/KEUwygIpf2MTqjQa.f0MEXNg2cGFc62Fet8XpuDVDedM05CweAlxW6GWxnmHqp14CRf6zU7OQoE/bCu0",
            "password",
        ),
    ];

    pub const SSH_KEYS: &[&str] = &[
        "ssh-ed25519 AAAAC3NzaC1lZDI1NTE5AAAAIAeGW1P6Pc2rPq0XqbRaDKBcXZUPRklo0L1EyR30CwoP william@amethyst",
        concat!(
            "ecdsa-sha2-nistp521 AAAAE2VjZHNhLXNoYTItbmlzdHA1MjEAAAAIbmlzdHA1MjEAAACFBAGyIY7o3B",
            "tOzRiJ9vvjj96bRImwmyy5GvFSIUPlK00HitiAWGhiO1jGZKmK7220Oe4rqU3uAwA00a0758UODs+0OQHLMDRtl81l",
            "zPrVSdrYEDldxH9+a86dBZhdm0e15+ODDts2LHUknsJCRRldO4o9R9VrohlF7cbyBlnhJQrR4S+Oag== william@a",
            "methyst"
        ),
        concat!(
            "ssh-rsa AAAAB3NzaC1yc2EAAAADAQABAAABAQDTcXpclurQpyOHZBM/cDY9EvInSYkYSGe51by/wJP0Njgi",
            "GZUJ3HTaPqoGWux0PKd7KJki+onLYt4IwDV1RhV/GtMML2U9v94+pA8RIK4khCxvpUxlM7Kt/svjOzzzqiZfKdV37/",
            "OUXmM7bwVGOvm3EerDOwmO/QdzNGfkca12aWLoz97YrleXnCoAzr3IN7j3rwmfJGDyuUtGTdmyS/QWhK9FPr8Ic3eM",
            "QK1JSAQqVfGhA8lLbJHmnQ/b/KMl2lzzp7SXej0wPUfvI/IP3NGb8irLzq8+JssAzXGJ+HMql+mNHiSuPaktbFzZ6y",
            "ikMR6Rx/psU07nAkxKZDEYpNVv"
        ),
    ];

    /// Self-signed test server certificate (kanidm's own test vector) and two attestation roots.
    pub const CERTS: &[&str] = &[
        "-----BEGIN CERTIFICATE-----
MIICeDCCAh6gAwIBAgIBAjAKBggqhkjOPQQDAjCBhDELMAkGA1UEBhMCQVUxDDAK
BgNVBAgMA1FMRDEPMA0GA1UECgwGS2FuaWRtMRwwGgYDVQQDDBNLYW5pZG0gR2Vu
ZXJhdGVkIENBMTgwNgYDVQQLDC9EZXZlbG9wbWVudCBhbmQgRXZhbHVhdGlvbiAt
IE5PVCBGT1IgUFJPRFVDVElPTjAeFw0yNTA3MjkwMzMxMDNaFw0yNTA4MDMwMzMx
MDNaMHoxCzAJBgNVBAYTAkFVMQwwCgYDVQQIDANRTEQxDzANBgNVBAoMBkthbmlk
bTESMBAGA1UEAwwJbG9jYWxob3N0MTgwNgYDVQQLDC9EZXZlbG9wbWVudCBhbmQg
RXZhbHVhdGlvbiAtIE5PVCBGT1IgUFJPRFVDVElPTjBZMBMGByqGSM49AgEGCCqG
SM49AwEHA0IABPFkpVzFH+feItm9JFFm/noge+BlZLpdGWOuSUvfoivAzCgPr7Kr
nGd8kUzIyJermePzu2SVQLaEt/7GY8Ha+2ujgYkwgYYwCQYDVR0TBAIwADAOBgNV
HQ8BAf8EBAMCBaAwEwYDVR0lBAwwCgYIKwYBBQUHAwEwHQYDVR0OBBYEFOjucEtX
mj/wQ7npVaMOyDtLU6dUMB8GA1UdIwQYMBaAFNo5o+5ea0sNMlW/75VgGJCv2AcJ
MBQGA1UdEQQNMAuCCWxvY2FsaG9zdDAKBggqhkjOPQQDAgNIADBFAiEA1TACf4eS
g07LRiKhlMgA+6xxztxiZCuV6LakRp7FZdECIFp0rFSiFJdkLEO9IyqYc+zPW770
ta41VMU3u9UQfHxF
-----END CERTIFICATE-----
",
        "-----BEGIN CERTIFICATE-----
MIIDHjCCAgagAwIBAgIEG0BT9zANBgkqhkiG9w0BAQsFADAuMSwwKgYDVQQDEyNZ
dWJpY28gVTJGIFJvb3QgQ0EgU2VyaWFsIDQ1NzIwMDYzMTAgFw0xNDA4MDEwMDAw
MDBaGA8yMDUwMDkwNDAwMDAwMFowLjEsMCoGA1UEAxMjWXViaWNvIFUyRiBSb290
IENBIFNlcmlhbCA0NTcyMDA2MzEwggEiMA0GCSqGSIb3DQEBAQUAA4IBDwAwggEK
AoIBAQC/jwYuhBVlqaiYWEMsrWFisgJ+PtM91eSrpI4TK7U53mwCIawSDHy8vUmk
5N2KAj9abvT9NP5SMS1hQi3usxoYGonXQgfO6ZXyUA9a+KAkqdFnBnlyugSeCOep
8EdZFfsaRFtMjkwz5Gcz2Py4vIYvCdMHPtwaz0bVuzneueIEz6TnQjE63Rdt2zbw
nebwTG5ZybeWSwbzy+BJ34ZHcUhPAY89yJQXuE0IzMZFcEBbPNRbWECRKgjq//qT
9nmDOFVlSRCt2wiqPSzluwn+v+suQEBsUjTGMEd25tKXXTkNW21wIWbxeSyUoTXw
LvGS6xlwQSgNpk2qXYwf8iXg7VWZAgMBAAGjQjBAMB0GA1UdDgQWBBQgIvz0bNGJ
hjgpToksyKpP9xv9oDAPBgNVHRMECDAGAQH/AgEAMA4GA1UdDwEB/wQEAwIBBjAN
BgkqhkiG9w0BAQsFAAOCAQEAjvjuOMDSa+JXFCLyBKsycXtBVZsJ4Ue3LbaEsPY4
MYN/hIQ5ZM5p7EjfcnMG4CtYkNsfNHc0AhBLdq45rnT87q/6O3vUEtNMafbhU6kt
hX7Y+9XFN9NpmYxr+ekVY5xOxi8h9JDIgoMP4VB1uS0aunL1IGqrNooL9mmFnL2k
LVVee6/VR6C5+KSTCMCWppMuJIZII2v9o4dkoZ8Y7QRjQlLfYzd3qGtKbw7xaF1U
sG/5xUb/Btwb2X2g4InpiB/yt/3CpQXpiWX/K4mBvUKiGn05ZsqeY1gx4g0xLBqc
U9psmyPzK+Vsgw2jeRQ5JlKDyqE0hebfC1tvFu0CCrJFcw==
-----END CERTIFICATE-----
",
        "-----BEGIN CERTIFICATE-----
MIICEjCCAZmgAwIBAgIQaB0BbHo84wIlpQGUKEdXcTAKBggqhkjOPQQDAzBLMR8w
HQYDVQQDDBZBcHBsZSBXZWJBdXRobiBSb290IENBMRMwEQYDVQQKDApBcHBsZSBJ
bmMuMRMwEQYDVQQIDApDYWxpZm9ybmlhMB4XDTIwMDMxODE4MjEzMloXDTQ1MDMx
NTAwMDAwMFowSzEfMB0GA1UEAwwWQXBwbGUgV2ViQXV0aG4gUm9vdCBDQTETMBEG
A1UECgwKQXBwbGUgSW5jLjETMBEGA1UECAwKQ2FsaWZvcm5pYTB2MBAGByqGSM49
AgEGBSuBBAAiA2IABCJCQ2pTVhzjl4Wo6IhHtMSAzO2cv+H9DQKev3//fG59G11k
xu9eI0/7o6V5uShBpe1u6l6mS19S1FEh6yGljnZAJ+2GNP1mi/YK2kSXIuTHjxA/
pcoRf7XkOtO4o1qlcaNCMEAwDwYDVR0TAQH/BAUwAwEB/zAdBgNVHQ4EFgQUJtdk
2cV4wlpn0afeaxLQG2PxxtcwDgYDVR0PAQH/BAQDAgEGMAoGCCqGSM49BAMDA2cA
MGQCMFrZ+9DsJ1PW9hfNdBywZDsWDbWFp28it1d/5w2RPkRX3Bbn/UbDTNLx7Jr3
jAGGiQIwHFj+dJZYUJR786osByBelJYsVZd2GbHQu209b5RCmGQ21gpSAk9QZW4B
1bWeT0vT
-----END CERTIFICATE-----
",
    ];

    const IMG_DIR: &str = concat!(env!("CARGO_MANIFEST_DIR"), "/../../../repo/server/lib/src/valueset/image/test_images/");
    /// kanidm's own "ok" test images: (file name, type, bytes).
    pub fn images() -> Vec<(&'static str, ImageType, &'static [u8])> {
        vec![
            ("ok.png", ImageType::Png, include_bytes!(concat!(env!("CARGO_MANIFEST_DIR"), "/../../../repo/server/lib/src/valueset/image/test_images/ok.png")).as_slice()),
            ("ok.jpg", ImageType::Jpg, include_bytes!(concat!(env!("CARGO_MANIFEST_DIR"), "/../../../repo/server/lib/src/valueset/image/test_images/ok.jpg")).as_slice()),
            ("ok.gif", ImageType::Gif, include_bytes!(concat!(env!("CARGO_MANIFEST_DIR"), "/../../../repo/server/lib/src/valueset/image/test_images/ok.gif")).as_slice()),
            ("ok.svg", ImageType::Svg, include_bytes!(concat!(env!("CARGO_MANIFEST_DIR"), "/../../../repo/server/lib/src/valueset/image/test_images/ok.svg")).as_slice()),
            ("ok.webp", ImageType::Webp, include_bytes!(concat!(env!("CARGO_MANIFEST_DIR"), "/../../../repo/server/lib/src/valueset/image/test_images/ok.webp")).as_slice()),
        ]
    }
    #[allow(dead_code)]
    fn _img_dir() -> &'static str {
        IMG_DIR
    }

    // -----------------------------------------------------------------------------------------
    // AST

    #[derive(Debug, Clone, Copy, PartialEq, Eq, Serialize, Deserialize)]
    pub struct GTime {
        /// seconds after 2000-01-01T00:00:00Z
        pub secs: u32,
        pub nanos: u32,
    }
    impl GTime {
        pub fn odt(&self) -> OffsetDateTime {
            OffsetDateTime::UNIX_EPOCH + Duration::new(946_684_800 + self.secs as u64, self.nanos % 1_000_000_000)
        }
    }

    #[derive(Debug, Clone, Copy, PartialEq, Eq, Serialize, Deserialize)]
    pub struct GCid {
        pub server: u8,
        pub secs: u32,
        pub nanos: u32,
    }
    impl GCid {
        pub fn cid(&self) -> Cid {
            ident::cid(uuid_n(0x5e00 + self.server as u64), Duration::new(self.secs as u64, self.nanos % 1_000_000_000))
        }
    }

    pub fn uuid_n(n: u64) -> Uuid {
        Uuid::from_u128(0xBBBB_0000_0000_4000_8000_0000_0000_0000u128 + n as u128)
    }

    #[derive(Debug, Clone, PartialEq, Eq, Serialize, Deserialize)]
    pub enum GPw {
        /// kanidm-generated hash of a cleartext: algo 0 = argon2id, 1 = pbkdf2
        Generated { clear: String, algo: u8 },
        /// index into IMPORTS; `lower` = scheme prefix in lower case (openldap style)
        Import { idx: u8, lower: bool },
    }
    impl GPw {
        pub fn clear(&self) -> String {
            match self {
                GPw::Generated { clear, .. } => clear.clone(),
                GPw::Import { idx, .. } => IMPORTS[*idx as usize % IMPORTS.len()].2.to_string(),
            }
        }
        pub fn label(&self) -> String {
            match self {
                GPw::Generated { algo, .. } => if *algo % 2 == 0 { "pw:argon2id".into() } else { "pw:pbkdf2".into() },
                GPw::Import { idx, .. } => format!("pw:import:{}", IMPORTS[*idx as usize % IMPORTS.len()].0),
            }
        }
        pub fn build(&self) -> Option<Password> {
            match self {
                GPw::Generated { clear, algo } => {
                    let pol = CryptoPolicy::danger_test_minimum();
                    if *algo % 2 == 0 {
                        Password::new_argon2id(&pol, clear).ok()
                    } else {
                        Password::new_pbkdf2(&pol, clear).ok()
                    }
                }
                GPw::Import { idx, lower } => {
                    let s = IMPORTS[*idx as usize % IMPORTS.len()].1;
                    let s = if *lower && s.starts_with('{') {
                        match s.split_once('}') {
                            Some((a, b)) => format!("{}}}{}", a.to_lowercase(), b),
                            None => s.to_string(),
                        }
                    } else {
                        s.to_string()
                    };
                    Password::try_from(s.as_str()).ok()
                }
            }
        }
    }

    #[derive(Debug, Clone, PartialEq, Eq, Serialize, Deserialize)]
    pub struct GTotp {
        pub secret: Vec<u8>,
        pub step: u8,
        pub algo: u8,
        pub digits8: bool,
    }
    impl GTotp {
        pub fn build(&self) -> Totp {
            let algo = match self.algo % 3 {
                0 => TotpAlgo::Sha1,
                1 => TotpAlgo::Sha256,
                _ => TotpAlgo::Sha512,
            };
            let digits = if self.digits8 { TotpDigits::Eight } else { TotpDigits::Six };
            Totp::new(self.secret.clone(), [30u64, 60, 15][self.step as usize % 3], algo, digits)
        }
    }

    #[derive(Debug, Clone, PartialEq, Eq, Serialize, Deserialize)]
    pub struct GCred {
        pub pw: GPw,
        pub generated: bool,
        pub totp: Vec<(String, GTotp)>,
        pub backup: Option<Vec<String>>,
        pub ts: GTime,
    }
    impl GCred {
        pub fn build(&self) -> Option<Credential> {
            let pw = self.pw.build()?;
            let ts = self.ts.odt();
            let mut c = if self.generated { hk::cred_from_generated_password(pw, ts) } else { hk::cred_from_password(pw, ts) };
            let mut seen = BTreeSet::new();
            for (l, t) in &self.totp {
                if seen.insert(l.clone()) {
                    c = hk::cred_append_totp(&c, l, t.build(), ts);
                }
            }
            if let Some(b) = &self.backup {
                if !seen.is_empty() {
                    c = hk::cred_set_backup_codes(&c, b.iter().cloned().collect(), ts).ok()?;
                }
            }
            Some(c)
        }
    }

    #[derive(Debug, Clone, PartialEq, Eq, Serialize, Deserialize)]
    pub enum GState {
        Never,
        Expires(GTime),
        Revoked(GCid),
    }
    impl GState {
        fn build(&self) -> SessionState {
            match self {
                GState::Never => SessionState::NeverExpires,
                GState::Expires(t) => SessionState::ExpiresAt(t.odt()),
                GState::Revoked(c) => SessionState::RevokedAt(c.cid()),
            }
        }
    }

    #[derive(Debug, Clone, PartialEq, Eq, Serialize, Deserialize)]
    pub struct GSession {
        pub label: String,
        pub state: GState,
        pub issued_at: GTime,
        pub by: (u8, u64),
        pub cred: u64,
        pub scope: u8,
        pub ty: u8,
        pub ext: Option<(u32, String, Option<String>)>,
    }
    fn identity(by: &(u8, u64)) -> IdentityId {
        match by.0 % 3 {
            0 => IdentityId::User(uuid_n(by.1)),
            1 => IdentityId::Synch(uuid_n(by.1)),
            _ => IdentityId::Internal(uuid_n(by.1)),
        }
    }

    #[derive(Debug, Clone, PartialEq, Eq, Serialize, Deserialize)]
    pub enum GIntent {
        Valid { ttl: u32, perms: u8 },
        InProgress { ttl: u32, perms: u8, sid: u64, sttl: u32 },
        Consumed { ttl: u32 },
    }
    fn perms(p: u8) -> CredUpdateSessionPerms {
        CredUpdateSessionPerms {
            ext_cred_portal_can_view: p & 1 != 0,
            primary_can_edit: p & 2 != 0,
            passkeys_can_edit: p & 4 != 0,
            attested_passkeys_can_edit: p & 8 != 0,
            unixcred_can_edit: p & 16 != 0,
            sshpubkey_can_edit: p & 32 != 0,
        }
    }

    #[derive(Debug, Clone, PartialEq, Eq, Serialize, Deserialize)]
    pub enum GFilt {
        Eq(String, String),
        Cnt(String, String),
        Pres(String),
        Or(Vec<GFilt>),
        And(Vec<GFilt>),
        AndNot(Box<GFilt>),
        SelfUuid,
    }
    impl GFilt {
        fn build(&self) -> ProtoFilter {
            match self {
                GFilt::Eq(a, v) => ProtoFilter::Eq(a.clone(), v.clone()),
                GFilt::Cnt(a, v) => ProtoFilter::Cnt(a.clone(), v.clone()),
                GFilt::Pres(a) => ProtoFilter::Pres(a.clone()),
                GFilt::Or(v) => ProtoFilter::Or(v.iter().map(|f| f.build()).collect()),
                GFilt::And(v) => ProtoFilter::And(v.iter().map(|f| f.build()).collect()),
                GFilt::AndNot(f) => ProtoFilter::AndNot(Box::new(f.build())),
                GFilt::SelfUuid => ProtoFilter::SelfUuid,
            }
        }
    }

    /// One generated value. Every variant is built through kanidm's public constructors /
    /// public enum variants (plus the listed hooks where the constructor is crate-private).
    #[derive(Debug, Clone, PartialEq, Eq, Serialize, Deserialize)]
    pub enum GV {
        Utf8(String),
        Iutf8(String),
        Iname(String),
        Uuid(u64),
        Refer(u64),
        Bool(bool),
        Uint32(u32),
        Int64(i64),
        Uint64(u64),
        Syntax(u8),
        Index(u8),
        Secret(String),
        Restricted(String),
        Spn(String, String),
        Cid(GCid),
        JsonFilt(GFilt),
        Nsuniqueid(u64),
        Url(u8, String),
        DateTime(GTime),
        PrivBin(Vec<u8>),
        PubBin(String, Vec<u8>),
        OauthScope(String),
        Address([String; 6]),
        Cred { tag: String, cred: GCred },
        SshKey { tag: String, key: u8 },
        ScopeMap(u64, Vec<String>),
        Intent { id: String, st: GIntent },
        Email { addr: String, primary: bool },
        Session { id: u64, s: GSession },
        ApiToken { id: u64, label: String, expiry: Option<GTime>, issued_at: GTime, by: (u8, u64), scope: u8 },
        O2Session { id: u64, parent: Option<u64>, state: GState, issued_at: GTime, rs: u64 },
        UiHint(u8),
        Totp { label: String, t: GTotp },
        Audit { cid: GCid, s: String },
        Image { name: String, img: u8 },
        CredType(u8),
        AttCa { mask: u8, aaguid: u64 },
        ClaimMap { name: String, join: u8 },
        ClaimValue { name: String, group: u64, claims: Vec<String> },
        Hex(String),
        KeyInternal { id: String, usage: u8, valid_from: u64, status: u8, cid: GCid, der: Vec<u8> },
        Cert(u8),
        AppPw { app: u64, label: String, clear: String },
        JwsEs256(u8),
        JwsRs256(u8),
    }

    const SYNTAXES: [SyntaxType; 8] = [
        SyntaxType::Utf8String,
        SyntaxType::Utf8StringInsensitive,
        SyntaxType::Uuid,
        SyntaxType::Credential,
        SyntaxType::Session,
        SyntaxType::KeyInternal,
        SyntaxType::Sha256,
        SyntaxType::Uint64,
    ];
    const CRED_TYPES: [CredentialType; 7] = [
        CredentialType::Any,
        CredentialType::External,
        CredentialType::Mfa,
        CredentialType::Passkey,
        CredentialType::AttestedPasskey,
        CredentialType::AttestedResidentkey,
        CredentialType::Invalid,
    ];
    const URLS: [&str; 4] = ["https://idm.example.com/", "https://demo.example.com/oauth2/cb?x=1&y=%20z", "app://localhost", "http://[::1]:8080/a/b#frag"];

    thread_local! {
        static ES256: std::cell::RefCell<Vec<Value>> = const { std::cell::RefCell::new(Vec::new()) };
        static RS256: std::cell::RefCell<Vec<Value>> = const { std::cell::RefCell::new(Vec::new()) };
    }
    fn cached_key(rs: bool, i: u8) -> Option<Value> {
        let cell = if rs { &RS256 } else { &ES256 };
        cell.with(|c| {
            let mut c = c.borrow_mut();
            let want = (i as usize % 2) + 1;
            while c.len() < want {
                let v = if rs { hk::jws_rs256_value() } else { hk::jws_es256_value() }?;
                c.push(v);
            }
            c.get(i as usize % 2).cloned()
        })
    }

    impl GV {
        /// Name of the syntax this value belongs to (histogram label).
        pub fn syntax(&self) -> SyntaxType {
            match self {
                GV::Utf8(_) => SyntaxType::Utf8String,
                GV::Iutf8(_) => SyntaxType::Utf8StringInsensitive,
                GV::Iname(_) => SyntaxType::Utf8StringIname,
                GV::Uuid(_) => SyntaxType::Uuid,
                GV::Refer(_) => SyntaxType::ReferenceUuid,
                GV::Bool(_) => SyntaxType::Boolean,
                GV::Uint32(_) => SyntaxType::Uint32,
                GV::Int64(_) => SyntaxType::Int64,
                GV::Uint64(_) => SyntaxType::Uint64,
                GV::Syntax(_) => SyntaxType::SyntaxId,
                GV::Index(_) => SyntaxType::IndexId,
                GV::Secret(_) => SyntaxType::SecretUtf8String,
                GV::Restricted(_) => SyntaxType::Utf8String,
                GV::Spn(_, _) => SyntaxType::SecurityPrincipalName,
                GV::Cid(_) => SyntaxType::Cid,
                GV::JsonFilt(_) => SyntaxType::JsonFilter,
                GV::Nsuniqueid(_) => SyntaxType::NsUniqueId,
                GV::Url(_, _) => SyntaxType::Url,
                GV::DateTime(_) => SyntaxType::DateTime,
                GV::PrivBin(_) => SyntaxType::PrivateBinary,
                GV::PubBin(_, _) => SyntaxType::PrivateBinary,
                GV::OauthScope(_) => SyntaxType::OauthScope,
                GV::Address(_) => SyntaxType::EmailAddress,
                GV::Cred { .. } => SyntaxType::Credential,
                GV::SshKey { .. } => SyntaxType::SshKey,
                GV::ScopeMap(_, _) => SyntaxType::OauthScopeMap,
                GV::Intent { .. } => SyntaxType::IntentToken,
                GV::Email { .. } => SyntaxType::EmailAddress,
                GV::Session { .. } => SyntaxType::Session,
                GV::ApiToken { .. } => SyntaxType::ApiToken,
                GV::O2Session { .. } => SyntaxType::Oauth2Session,
                GV::UiHint(_) => SyntaxType::UiHint,
                GV::Totp { .. } => SyntaxType::TotpSecret,
                GV::Audit { .. } => SyntaxType::AuditLogString,
                GV::Image { .. } => SyntaxType::Image,
                GV::CredType(_) => SyntaxType::CredentialType,
                GV::AttCa { .. } => SyntaxType::WebauthnAttestationCaList,
                GV::ClaimMap { .. } | GV::ClaimValue { .. } => SyntaxType::OauthClaimMap,
                GV::Hex(_) => SyntaxType::HexString,
                GV::KeyInternal { .. } => SyntaxType::KeyInternal,
                GV::Cert(_) => SyntaxType::Certificate,
                GV::AppPw { .. } => SyntaxType::ApplicationPassword,
                GV::JwsEs256(_) => SyntaxType::JwsKeyEs256,
                GV::JwsRs256(_) => SyntaxType::JwsKeyRs256,
            }
        }

        /// Variant name (finer than the syntax: Restricted, Address, PubBin have no own syntax).
        pub fn kind(&self) -> String {
            let d = format!("{self:?}");
            d.split(|c: char| !c.is_alphanumeric()).next().unwrap_or("").to_string()
        }

        /// Build the kanidm value. None = the constructor refused the input (case is discarded).
        pub fn build(&self) -> Option<Value> {
            Some(match self {
                GV::Utf8(s) => Value::new_utf8s(s),
                GV::Iutf8(s) => Value::new_iutf8(s),
                GV::Iname(s) => Value::new_iname(s),
                GV::Uuid(n) => Value::Uuid(uuid_n(*n)),
                GV::Refer(n) => Value::Refer(uuid_n(*n)),
                GV::Bool(b) => Value::new_bool(*b),
                GV::Uint32(u) => Value::new_uint32(*u),
                GV::Int64(i) => Value::new_int64_str(&i.to_string())?,
                GV::Uint64(u) => Value::new_uint64_str(&u.to_string())?,
                GV::Syntax(i) => Value::new_syntax(SYNTAXES[*i as usize % SYNTAXES.len()]),
                GV::Index(i) => Value::new_index([IndexType::Equality, IndexType::Presence, IndexType::SubString, IndexType::Ordering][*i as usize % 4]),
                GV::Secret(s) => Value::new_secret_str(s),
                GV::Restricted(s) => Value::new_restrictedstring(s.clone()),
                GV::Spn(n, d) => Value::new_spn_str(n, d),
                GV::Cid(c) => Value::new_cid(c.cid()),
                GV::JsonFilt(f) => Value::new_json_filter(f.build()),
                GV::Nsuniqueid(n) => {
                    let h = format!("{:032x}", (*n as u128) * 0x1_0000_0001_0000_0001u128 + 0xabcdef);
                    Value::new_nsuniqueid_s(&format!("{}-{}-{}-{}", &h[0..8], &h[8..16], &h[16..24], &h[24..32]))?
                }
                GV::Url(i, extra) => {
                    let mut u = Url::parse(URLS[*i as usize % URLS.len()]).ok()?;
                    if !extra.is_empty() && !u.cannot_be_a_base() {
                        u.set_query(Some(extra));
                    }
                    Value::new_url(u)
                }
                GV::DateTime(t) => Value::new_datetime(t.odt()),
                GV::PrivBin(b) => Value::new_privatebinary(b),
                GV::PubBin(t, b) => Value::new_publicbinary(t.clone(), b.clone()),
                GV::OauthScope(s) => Value::new_oauthscope(s)?,
                GV::Address(a) => Value::new_address(Address {
                    formatted: a[0].clone(),
                    street_address: a[1].clone(),
                    locality: a[2].clone(),
                    region: a[3].clone(),
                    postal_code: a[4].clone(),
                    country: a[5].clone(),
                }),
                GV::Cred { tag, cred } => Value::new_credential(tag, cred.build()?),
                GV::SshKey { tag, key } => Value::new_sshkey_str(tag, SSH_KEYS[*key as usize % SSH_KEYS.len()]).ok()?,
                GV::ScopeMap(g, scopes) => Value::new_oauthscopemap(uuid_n(*g), scopes.iter().cloned().collect())?,
                GV::Intent { id, st } => Value::IntentToken(
                    id.clone(),
                    match st {
                        GIntent::Valid { ttl, perms: p } => IntentTokenState::Valid {
                            max_ttl: Duration::from_secs(*ttl as u64),
                            perms: perms(*p),
                        },
                        GIntent::InProgress { ttl, perms: p, sid, sttl } => IntentTokenState::InProgress {
                            max_ttl: Duration::from_secs(*ttl as u64),
                            perms: perms(*p),
                            session_id: uuid_n(*sid),
                            session_ttl: Duration::from_secs(*sttl as u64),
                        },
                        GIntent::Consumed { ttl } => IntentTokenState::Consumed {
                            max_ttl: Duration::from_secs(*ttl as u64),
                        },
                    },
                ),
                GV::Email { addr, primary } => {
                    if *primary {
                        Value::new_email_address_primary_s(addr)?
                    } else {
                        Value::new_email_address_s(addr)?
                    }
                }
                GV::Session { id, s } => Value::Session(
                    uuid_n(*id),
                    Session {
                        label: s.label.clone(),
                        state: s.state.build(),
                        issued_at: s.issued_at.odt(),
                        issued_by: identity(&s.by),
                        cred_id: uuid_n(s.cred),
                        scope: [SessionScope::ReadOnly, SessionScope::ReadWrite, SessionScope::PrivilegeCapable, SessionScope::Synchronise][s.scope as usize % 4],
                        type_: [
                            AuthType::Anonymous,
                            AuthType::Password,
                            AuthType::GeneratedPassword,
                            AuthType::PasswordTotp,
                            AuthType::PasswordBackupCode,
                            AuthType::PasswordSecurityKey,
                            AuthType::Passkey,
                            AuthType::AttestedPasskey,
                            AuthType::OAuth2Trust,
                        ][s.ty as usize % 9],
                        ext_metadata: match &s.ext {
                            None => SessionExtMetadata::None,
                            Some((exp, at, rt)) => SessionExtMetadata::OAuth2 {
                                access_expires_at: Duration::from_secs(*exp as u64),
                                access_token: at.clone(),
                                refresh_token: rt.clone(),
                            },
                        },
                    },
                ),
                GV::ApiToken { id, label, expiry, issued_at, by, scope } => Value::ApiToken(
                    uuid_n(*id),
                    ApiToken {
                        label: label.clone(),
                        expiry: expiry.map(|t| t.odt()),
                        issued_at: issued_at.odt(),
                        issued_by: identity(by),
                        scope: [ApiTokenScope::ReadOnly, ApiTokenScope::ReadWrite, ApiTokenScope::Synchronise][*scope as usize % 3],
                    },
                ),
                GV::O2Session { id, parent, state, issued_at, rs } => Value::Oauth2Session(
                    uuid_n(*id),
                    Oauth2Session {
                        parent: parent.map(uuid_n),
                        state: state.build(),
                        issued_at: issued_at.odt(),
                        rs_uuid: uuid_n(*rs),
                    },
                ),
                GV::UiHint(i) => Value::UiHint(
                    [UiHint::ExperimentalFeatures, UiHint::PosixAccount, UiHint::CredentialUpdate, UiHint::SynchronisedAccount][*i as usize % 4],
                ),
                GV::Totp { label, t } => Value::TotpSecret(label.clone(), t.build()),
                GV::Audit { cid, s } => Value::new_audit_log_string((cid.cid(), s.clone()))?,
                GV::Image { name, img } => {
                    let imgs = images();
                    let (_, ty, bytes) = &imgs[*img as usize % imgs.len()];
                    Value::Image(ImageValue {
                        filename: name.clone(),
                        filetype: ty.clone(),
                        contents: bytes.to_vec(),
                    })
                }
                GV::CredType(i) => Value::CredentialType(CRED_TYPES[*i as usize % CRED_TYPES.len()]),
                GV::AttCa { mask, aaguid } => {
                    let mut devs: Vec<(&str, Uuid, &str)> = Vec::new();
                    if mask & 1 != 0 || mask & 3 == 0 {
                        devs.push((CERTS[1], uuid_n(*aaguid), "device a"));
                    }
                    if mask & 2 != 0 {
                        devs.push((CERTS[2], uuid_n(*aaguid + 1), "device b"));
                    }
                    if mask & 4 != 0 {
                        devs.push((CERTS[1], uuid_n(*aaguid + 2), "device c"));
                    }
                    hk::att_ca_list_value(&devs)?
                }
                GV::ClaimMap { name, join } => Value::OauthClaimMap(
                    name.clone(),
                    [OauthClaimMapJoin::CommaSeparatedValue, OauthClaimMapJoin::SpaceSeparatedValue, OauthClaimMapJoin::JsonArray][*join as usize % 3],
                ),
                GV::ClaimValue { name, group, claims } => Value::new_oauthclaimmap(name.clone(), uuid_n(*group), claims.iter().cloned().collect())?,
                GV::Hex(s) => Value::new_hex_string_s(s)?,
                GV::KeyInternal { id, usage, valid_from, status, cid, der } => hk::key_internal_value(
                    id,
                    [KeyUsage::JwsEs256, KeyUsage::JwsHs256, KeyUsage::JwsRs256, KeyUsage::JweA128GCM, KeyUsage::HkdfS256][*usage as usize % 5],
                    *valid_from,
                    [KeyStatus::Valid, KeyStatus::Retained, KeyStatus::Revoked][*status as usize % 3],
                    cid.cid(),
                    der.clone(),
                ),
                GV::Cert(i) => Value::new_certificate_s(CERTS[*i as usize % CERTS.len()])?,
                GV::AppPw { app, label, clear } => {
                    Value::ApplicationPassword(ApplicationPassword::new(uuid_n(*app), label, clear, &CryptoPolicy::danger_test_minimum()).ok()?)
                }
                GV::JwsEs256(i) => cached_key(false, *i)?,
                GV::JwsRs256(i) => cached_key(true, *i)?,
            })
        }
    }

    /// A generated value set: 1..n values of one variant.
    #[derive(Debug, Clone, PartialEq, Eq, Serialize, Deserialize)]
    pub struct GSet {
        pub vals: Vec<GV>,
    }

    impl GSet {
        pub fn syntax(&self) -> SyntaxType {
            self.vals.first().map(|v| v.syntax()).unwrap_or_default()
        }
        pub fn kind(&self) -> String {
            self.vals.first().map(|v| v.kind()).unwrap_or_default()
        }
        /// Build the set through `from_value_iter` (the server's own set constructor).
        pub fn build(&self) -> Option<ValueSet> {
            let vals: Option<Vec<Value>> = self.vals.iter().map(|v| v.build()).collect();
            let vals = vals?;
            if !vals.iter().all(hk::value_validate) {
                return None;
            }
            if vals.len() > 1 && matches!(vals.first(), Some(Value::KeyInternal { .. })) {
                // ValueSetKeyInternal has no insert; the server builds multi-key sets with from_key_iter
                return hk::key_internal_set(vals.iter().filter_map(hk::key_internal_parts).collect()).ok();
            }
            valueset::from_value_iter(vals.into_iter()).ok()
        }
    }

    // -----------------------------------------------------------------------------------------
    // generators

    const CHARS: [char; 24] = [
        'a', 'b', 'Z', 'q', '0', '9', ' ', '-', '_', '.', '@', 'ß', 'é', 'İ', 'ı', 'Σ', 'ς', '日', '本', '🦀', '\u{0301}', '"', '\\', '/',
    ];
    pub fn ustr(max: usize) -> BoxedStrategy<String> {
        proptest::collection::vec(proptest::sample::select(CHARS.to_vec()), 0..=max)
            .prop_map(|v| v.into_iter().collect())
            .boxed()
    }
    fn ustr1(max: usize) -> BoxedStrategy<String> {
        proptest::collection::vec(proptest::sample::select(CHARS.to_vec()), 1..=max)
            .prop_map(|v| v.into_iter().collect())
            .boxed()
    }
    fn lname(max: usize) -> BoxedStrategy<String> {
        proptest::collection::vec(proptest::sample::select(vec!['a', 'b', 'c', 'x', 'y', '1', '2', '_', '-']), 1..=max)
            .prop_map(|v| {
                let s: String = v.into_iter().collect();
                format!("n{s}")
            })
            .boxed()
    }
    fn bytes(max: usize) -> BoxedStrategy<Vec<u8>> {
        proptest::collection::vec(any::<u8>(), 0..=max).boxed()
    }
    pub fn gtime() -> BoxedStrategy<GTime> {
        (prop_oneof![Just(0u32), Just(1), 0u32..3_000_000_000, Just(3_155_760_000u32)], prop_oneof![Just(0u32), Just(999_999_999), Just(500_000_000), 0u32..1_000_000_000])
            .prop_map(|(secs, nanos)| GTime { secs, nanos })
            .boxed()
    }
    fn gcid() -> BoxedStrategy<GCid> {
        (0u8..3, prop_oneof![Just(0u32), 1u32..2_000_000_000], prop_oneof![Just(0u32), Just(999_999_999), 0u32..1_000_000_000])
            .prop_map(|(server, secs, nanos)| GCid { server, secs, nanos })
            .boxed()
    }
    /// Index of the one dear vector (OpenLDAP argon2id, 64 MiB, t=2: seconds per verify on a loaded box).
    pub const DEAR_IMPORT: u8 = 11;
    pub fn gpw() -> BoxedStrategy<GPw> {
        let cheap: Vec<u8> = (0..IMPORTS.len() as u8).filter(|i| *i != DEAR_IMPORT).collect();
        prop_oneof![
            120 => (ustr1(10), 0u8..2).prop_map(|(clear, algo)| GPw::Generated { clear, algo }),
            300 => (proptest::sample::select(cheap), any::<bool>()).prop_map(|(idx, lower)| GPw::Import { idx, lower }),
            1 => any::<bool>().prop_map(|lower| GPw::Import { idx: DEAR_IMPORT, lower }),
        ]
        .boxed()
    }
    fn gtotp() -> BoxedStrategy<GTotp> {
        (proptest::collection::vec(any::<u8>(), 1..40), 0u8..3, 0u8..3, any::<bool>())
            .prop_map(|(secret, step, algo, digits8)| GTotp { secret, step, algo, digits8 })
            .boxed()
    }
    pub fn gcred() -> BoxedStrategy<GCred> {
        (
            gpw(),
            any::<bool>(),
            proptest::collection::vec((lname(4), gtotp()), 0..3),
            proptest::option::of(proptest::collection::vec(lname(6), 0..4)),
            gtime(),
        )
            .prop_map(|(pw, generated, totp, backup, ts)| GCred { pw, generated, totp, backup, ts })
            .boxed()
    }
    fn gstate() -> BoxedStrategy<GState> {
        prop_oneof![Just(GState::Never), gtime().prop_map(GState::Expires), gcid().prop_map(GState::Revoked)].boxed()
    }
    fn gsession() -> BoxedStrategy<GSession> {
        (
            ustr(8),
            gstate(),
            gtime(),
            (0u8..3, 0u64..4),
            0u64..4,
            0u8..4,
            0u8..9,
            proptest::option::of((any::<u32>(), ustr(12), proptest::option::of(ustr(12)))),
        )
            .prop_map(|(label, state, issued_at, by, cred, scope, ty, ext)| GSession {
                label,
                state,
                issued_at,
                by,
                cred,
                scope,
                ty,
                ext,
            })
            .boxed()
    }
    fn gfilt() -> BoxedStrategy<GFilt> {
        let leaf = prop_oneof![
            (lname(5), ustr(6)).prop_map(|(a, v)| GFilt::Eq(a, v)),
            (lname(5), ustr(6)).prop_map(|(a, v)| GFilt::Cnt(a, v)),
            lname(5).prop_map(GFilt::Pres),
            Just(GFilt::SelfUuid),
        ];
        leaf.prop_recursive(3, 12, 3, |inner| {
            prop_oneof![
                proptest::collection::vec(inner.clone(), 0..3).prop_map(GFilt::Or),
                proptest::collection::vec(inner.clone(), 0..3).prop_map(GFilt::And),
                inner.prop_map(|f| GFilt::AndNot(Box::new(f))),
            ]
        })
        .boxed()
    }
    fn email() -> BoxedStrategy<String> {
        (lname(5), proptest::sample::select(vec!["example.com", "Example.ORG", "mail.example.net"])).prop_map(|(l, d)| format!("{l}@{d}")).boxed()
    }

    /// Strategy for one value of variant number `k` (0..N_KINDS).
    pub const N_KINDS: u8 = 45;
    pub fn gv_of_kind(k: u8) -> BoxedStrategy<GV> {
        match k {
            0 => ustr1(10).prop_map(GV::Utf8).boxed(),
            1 => ustr1(10).prop_map(GV::Iutf8).boxed(),
            2 => lname(8).prop_map(GV::Iname).boxed(),
            3 => (0u64..6).prop_map(GV::Uuid).boxed(),
            4 => (0u64..6).prop_map(GV::Refer).boxed(),
            5 => any::<bool>().prop_map(GV::Bool).boxed(),
            6 => prop_oneof![Just(0u32), Just(u32::MAX), any::<u32>()].prop_map(GV::Uint32).boxed(),
            7 => prop_oneof![Just(0i64), Just(i64::MIN), Just(i64::MAX), any::<i64>()].prop_map(GV::Int64).boxed(),
            8 => prop_oneof![Just(0u64), Just(u64::MAX), any::<u64>()].prop_map(GV::Uint64).boxed(),
            9 => (0u8..8).prop_map(GV::Syntax).boxed(),
            10 => (0u8..4).prop_map(GV::Index).boxed(),
            11 => ustr1(12).prop_map(GV::Secret).boxed(),
            // RestrictedString / PublicBinary / Address value sets have no SyntaxType (`syntax()` is
            // `unreachable!()`): they are not storable attribute types, so they are not generated.
            12 => ustr1(10).prop_map(GV::Utf8).boxed(),
            13 => (lname(6), proptest::sample::select(vec!["example.com", "new.example.org"])).prop_map(|(n, d)| GV::Spn(n, d.to_string())).boxed(),
            14 => gcid().prop_map(GV::Cid).boxed(),
            15 => gfilt().prop_map(GV::JsonFilt).boxed(),
            16 => any::<u64>().prop_map(GV::Nsuniqueid).boxed(),
            17 => (0u8..4, prop_oneof![Just(String::new()), lname(6)]).prop_map(|(i, e)| GV::Url(i, e)).boxed(),
            18 => gtime().prop_map(GV::DateTime).boxed(),
            19 => bytes(40).prop_map(GV::PrivBin).boxed(),
            20 => bytes(40).prop_map(GV::PrivBin).boxed(),
            21 => lname(6).prop_map(GV::OauthScope).boxed(),
            22 => (email(), any::<bool>()).prop_map(|(addr, primary)| GV::Email { addr, primary }).boxed(),
            23 => (lname(5), gcred()).prop_map(|(tag, cred)| GV::Cred { tag, cred }).boxed(),
            24 => (lname(5), 0u8..3).prop_map(|(tag, key)| GV::SshKey { tag, key }).boxed(),
            25 => (0u64..5, proptest::collection::vec(lname(5), 1..4)).prop_map(|(g, s)| GV::ScopeMap(g, s)).boxed(),
            26 => (
                lname(8),
                prop_oneof![
                    (any::<u32>(), any::<u8>()).prop_map(|(ttl, perms)| GIntent::Valid { ttl, perms }),
                    (any::<u32>(), any::<u8>(), 0u64..5, any::<u32>()).prop_map(|(ttl, perms, sid, sttl)| GIntent::InProgress { ttl, perms, sid, sttl }),
                    any::<u32>().prop_map(|ttl| GIntent::Consumed { ttl }),
                ],
            )
                .prop_map(|(id, st)| GV::Intent { id, st })
                .boxed(),
            27 => (email(), any::<bool>()).prop_map(|(addr, primary)| GV::Email { addr, primary }).boxed(),
            28 => (0u64..6, gsession()).prop_map(|(id, s)| GV::Session { id, s }).boxed(),
            29 => (0u64..6, ustr(8), proptest::option::of(gtime()), gtime(), (0u8..3, 0u64..4), 0u8..3)
                .prop_map(|(id, label, expiry, issued_at, by, scope)| GV::ApiToken {
                    id,
                    label,
                    expiry,
                    issued_at,
                    by,
                    scope,
                })
                .boxed(),
            30 => (0u64..6, proptest::option::of(0u64..4), gstate(), gtime(), 0u64..4)
                .prop_map(|(id, parent, state, issued_at, rs)| GV::O2Session {
                    id,
                    parent,
                    state,
                    issued_at,
                    rs,
                })
                .boxed(),
            31 => (0u8..4).prop_map(GV::UiHint).boxed(),
            32 => (lname(5), gtotp()).prop_map(|(label, t)| GV::Totp { label, t }).boxed(),
            33 => (gcid(), ustr1(12)).prop_map(|(cid, s)| GV::Audit { cid, s }).boxed(),
            34 => (lname(6), 0u8..5).prop_map(|(name, img)| GV::Image { name, img }).boxed(),
            35 => (0u8..7).prop_map(GV::CredType).boxed(),
            36 => (0u8..8, 0u64..4).prop_map(|(mask, aaguid)| GV::AttCa { mask, aaguid }).boxed(),
            37 => (lname(5), 0u8..3).prop_map(|(name, join)| GV::ClaimMap { name, join }).boxed(),
            38 => (lname(3), 0u64..4, proptest::collection::vec(lname(4), 1..3))
                .prop_map(|(name, group, claims)| GV::ClaimValue { name, group, claims })
                .boxed(),
            39 => proptest::collection::vec(proptest::sample::select("0123456789abcdefABCDEF".chars().collect::<Vec<_>>()), 1..20)
                .prop_map(|v| GV::Hex(v.into_iter().collect()))
                .boxed(),
            40 => (
                proptest::collection::vec(proptest::sample::select("0123456789abcdef".chars().collect::<Vec<_>>()), 1..16),
                0u8..5,
                any::<u64>(),
                0u8..3,
                gcid(),
                bytes(48),
            )
                .prop_map(|(id, usage, valid_from, status, cid, der)| GV::KeyInternal {
                    id: id.into_iter().collect(),
                    usage,
                    valid_from,
                    status,
                    cid,
                    der,
                })
                .boxed(),
            41 => (0u8..3).prop_map(GV::Cert).boxed(),
            42 => (0u64..4, lname(5), ustr1(8)).prop_map(|(app, label, clear)| GV::AppPw { app, label, clear }).boxed(),
            43 => (0u8..2).prop_map(GV::JwsEs256).boxed(),
            _ => (0u8..2).prop_map(GV::JwsRs256).boxed(),
        }
    }

    /// Relative weight of a kind: credentials (the richest kind) are drawn most often, the two
    /// expensive key kinds rarely.
    fn kind_weight(k: u8) -> u32 {
        match k {
            23 => 30,
            28 | 29 | 30 | 32 | 42 => 4,
            43 => 1,
            44 => 1,
            _ => 2,
        }
    }

    pub fn arb_gset() -> BoxedStrategy<GSet> {
        let opts: Vec<(u32, BoxedStrategy<GSet>)> = (0..N_KINDS)
            .map(|k| {
                let max = match k {
                    34 | 36 | 41 | 43 | 44 => 2usize,
                    23 | 42 => 3,
                    _ => 4,
                };
                (kind_weight(k), proptest::collection::vec(gv_of_kind(k), 1..=max).prop_map(|vals| GSet { vals }).boxed())
            })
            .collect();
        proptest::strategy::Union::new_weighted(opts).boxed()
    }

    // -----------------------------------------------------------------------------------------
    // deep comparison

    fn sorted<T: Ord>(mut v: Vec<T>) -> Vec<T> {
        v.sort();
        v
    }

    /// Field-by-field equality of two values of the same variant (kanidm's own `PartialEq for Value`
    /// compares only the key part of most structured values).
    pub fn veq(a: &Value, b: &Value) -> bool {
        match (a, b) {
            (Value::Utf8(x), Value::Utf8(y))
            | (Value::Iutf8(x), Value::Iutf8(y))
            | (Value::Iname(x), Value::Iname(y))
            | (Value::SecretValue(x), Value::SecretValue(y))
            | (Value::Nsuniqueid(x), Value::Nsuniqueid(y))
            | (Value::OauthScope(x), Value::OauthScope(y))
            | (Value::RestrictedString(x), Value::RestrictedString(y))
            | (Value::HexString(x), Value::HexString(y)) => x == y,
            (Value::Uuid(x), Value::Uuid(y)) | (Value::Refer(x), Value::Refer(y)) => x == y,
            (Value::Bool(x), Value::Bool(y)) => x == y,
            (Value::Syntax(x), Value::Syntax(y)) => x == y,
            (Value::Index(x), Value::Index(y)) => x == y,
            (Value::JsonFilt(x), Value::JsonFilt(y)) => x == y,
            (Value::Cred(t1, c1), Value::Cred(t2, c2)) => t1 == t2 && c1 == c2,
            (Value::SshKey(t1, k1), Value::SshKey(t2, k2)) => t1 == t2 && k1.to_string() == k2.to_string(),
            (Value::Spn(a1, b1), Value::Spn(a2, b2)) => a1 == a2 && b1 == b2,
            (Value::Uint32(x), Value::Uint32(y)) => x == y,
            (Value::Int64(x), Value::Int64(y)) => x == y,
            (Value::Uint64(x), Value::Uint64(y)) => x == y,
            (Value::Cid(x), Value::Cid(y)) => x == y,
            (Value::DateTime(x), Value::DateTime(y)) => x == y,
            (Value::EmailAddress(a1, p1), Value::EmailAddress(a2, p2)) => a1 == a2 && p1 == p2,
            (Value::Address(x), Value::Address(y)) => x == y,
            (Value::Url(x), Value::Url(y)) => x == y && x.as_str() == y.as_str(),
            (Value::OauthScopeMap(u1, s1), Value::OauthScopeMap(u2, s2)) => u1 == u2 && s1 == s2,
            (Value::PrivateBinary(x), Value::PrivateBinary(y)) => x == y,
            (Value::PublicBinary(t1, x), Value::PublicBinary(t2, y)) => t1 == t2 && x == y,
            (Value::IntentToken(i1, s1), Value::IntentToken(i2, s2)) => i1 == i2 && s1 == s2,
            (Value::Session(u1, s1), Value::Session(u2, s2)) => u1 == u2 && s1 == s2,
            (Value::ApiToken(u1, s1), Value::ApiToken(u2, s2)) => u1 == u2 && s1 == s2,
            (Value::Oauth2Session(u1, s1), Value::Oauth2Session(u2, s2)) => u1 == u2 && s1 == s2,
            (Value::JwsKeyEs256(_), Value::JwsKeyEs256(_)) | (Value::JwsKeyRs256(_), Value::JwsKeyRs256(_)) => {
                let (x, y) = (hk::jws_private_der(a), hk::jws_private_der(b));
                x.is_some() && x == y
            }
            (Value::UiHint(x), Value::UiHint(y)) => x == y,
            (Value::TotpSecret(l1, t1), Value::TotpSecret(l2, t2)) => l1 == l2 && t1 == t2,
            (Value::AuditLogString(c1, s1), Value::AuditLogString(c2, s2)) => c1 == c2 && s1 == s2,
            (Value::Image(x), Value::Image(y)) => x == y,
            (Value::CredentialType(x), Value::CredentialType(y)) => x == y,
            (Value::WebauthnAttestationCaList(x), Value::WebauthnAttestationCaList(y)) => {
                serde_json::to_string(x).ok().is_some_and(|sx| Some(sx) == serde_json::to_string(y).ok())
            }
            (Value::OauthClaimValue(n1, g1, c1), Value::OauthClaimValue(n2, g2, c2)) => n1 == n2 && g1 == g2 && c1 == c2,
            (Value::OauthClaimMap(n1, j1), Value::OauthClaimMap(n2, j2)) => n1 == n2 && j1 == j2,
            (Value::KeyInternal { .. }, Value::KeyInternal { .. }) => {
                let (x, y) = (hk::key_internal_parts(a), hk::key_internal_parts(b));
                x.is_some() && x == y
            }
            (Value::Certificate(x), Value::Certificate(y)) => x == y,
            (Value::ApplicationPassword(x), Value::ApplicationPassword(y)) => hk::apppwd_parts(x) == hk::apppwd_parts(y),
            (Value::Json(x), Value::Json(y)) => x == y,
            (Value::Sha256(x), Value::Sha256(y)) => x == y,
            _ => false,
        }
    }

    /// Compare a value set before and after a round trip. Returns the first discrepancy.
    pub fn same(before: &ValueSet, after: &ValueSet) -> Result<(), String> {
        if before.syntax() != after.syntax() {
            return Err(format!("syntax {:?} became {:?}", before.syntax(), after.syntax()));
        }
        if before.len() != after.len() {
            return Err(format!("{:?}: {} values became {}", before.syntax(), before.len(), after.len()));
        }
        // these two sets do not support `to_value_iter` (it debug-asserts); their typed maps have
        // derived, deep `PartialEq`
        let (bv, mut av): (Vec<Value>, Vec<Value>) = match before.syntax() {
            SyntaxType::KeyInternal => {
                let (x, y) = (before.as_key_internal_map(), after.as_key_internal_map());
                if x.is_none() || x != y {
                    return Err(format!("KeyInternal: key map {:?} became {:?}", x.map(|m| m.len()), y.map(|m| m.len())));
                }
                (Vec::new(), Vec::new())
            }
            SyntaxType::OauthClaimMap => {
                let (x, y) = (before.as_oauthclaim_map(), after.as_oauthclaim_map());
                if x.is_none() || x != y {
                    return Err(format!("OauthClaimMap: {x:?} became {y:?}"));
                }
                (Vec::new(), Vec::new())
            }
            _ => (before.to_value_iter().collect(), after.to_value_iter().collect()),
        };
        if bv.len() != av.len() {
            return Err(format!("{:?}: {} values became {} (value iterator)", before.syntax(), bv.len(), av.len()));
        }
        for b in &bv {
            match av.iter().position(|a| veq(b, a)) {
                Some(i) => {
                    av.swap_remove(i);
                }
                None => return Err(format!("{:?}: value {b:?} has no field-for-field equal value after the round trip; candidates left: {av:?}", before.syntax())),
            }
        }
        let (pb, pa) = (sorted(before.to_proto_string_clone_iter().collect::<Vec<_>>()), sorted(after.to_proto_string_clone_iter().collect::<Vec<_>>()));
        if pb != pa {
            return Err(format!("{:?}: proto strings {pb:?} became {pa:?}", before.syntax()));
        }
        let (kb, ka) = (sorted(before.generate_idx_eq_keys()), sorted(after.generate_idx_eq_keys()));
        if kb != ka {
            return Err(format!("{:?}: equality index keys {kb:?} became {ka:?}", before.syntax()));
        }
        if before.syntax() == SyntaxType::EmailAddress && before.as_email_str_iter().is_some() {
            let (x, y) = (before.to_email_address_primary_str(), after.to_email_address_primary_str());
            if x != y {
                return Err(format!("primary mail {x:?} became {y:?}"));
            }
        }
        // (kanidm's own `ValueSet::equal` is not consulted: it is unimplemented / key-only for
        // several syntaxes and debug-asserts on some.)
        Ok(())
    }

    // -----------------------------------------------------------------------------------------
    // behaviour probes

    pub fn near_misses(clear: &str) -> Vec<String> {
        let mut v = vec![String::new(), format!("{clear}x")];
        let mut cs: Vec<char> = clear.chars().collect();
        if let Some(l) = cs.last_mut() {
            *l = if *l == 'a' { 'b' } else { 'a' };
            v.push(cs.iter().collect());
        }
        v.retain(|s| s != clear);
        v
    }

    pub const PROBE_TIMES: [u64; 5] = [120, 149, 1_234_567_890, 1_700_000_000, 4_102_444_799];

    fn probe_pw(out: &mut BTreeMap<String, String>, key: &str, pw: &Password, clear: &str, dear: bool) {
        out.insert(format!("{key}:verify(right)"), format!("{:?}", pw.verify(clear)));
        for (i, n) in near_misses(clear).iter().enumerate().skip(if dear { 2 } else { 0 }) {
            out.insert(format!("{key}:verify(near-miss {i})"), format!("{:?}", pw.verify(n)));
        }
        out.insert(format!("{key}:requires_upgrade"), format!("{}", pw.requires_upgrade()));
    }
    fn probe_totp(out: &mut BTreeMap<String, String>, key: &str, t: &Totp) {
        for ts in PROBE_TIMES {
            let d = Duration::from_secs(ts);
            let code = t.do_totp_duration_from_epoch(&d);
            out.insert(format!("{key}:code@{ts}"), format!("{code:?}"));
            if let Ok(c) = code {
                out.insert(format!("{key}:verify@{ts}"), format!("{}", t.verify(c, d)));
                out.insert(format!("{key}:verify-wrong@{ts}"), format!("{}", t.verify((c + 1) % 1_000_000, d)));
            }
        }
    }

    /// Observable behaviour of a value set given the generator's knowledge of cleartexts.
    /// key -> observation. Compared before/after every round trip; the `expect` map lists
    /// observations the model demands (right password verifies, near-miss does not).
    pub fn behaviour(vs: &ValueSet, g: &GSet) -> BTreeMap<String, String> {
        let mut out = BTreeMap::new();
        if let Some(m) = (vs.syntax() == SyntaxType::KeyInternal).then(|| vs.as_key_internal_map()).flatten() {
            for (k, d) in m {
                out.insert(format!("key[{k:?}]:status"), format!("{:?}@{:?} usage {:?} from {}", d.status, d.status_cid, d.usage, d.valid_from));
            }
            return out;
        }
        if vs.syntax() == SyntaxType::OauthClaimMap {
            return out;
        }
        // generic query behaviour: the set contains each of its own partial values
        for (i, pv) in vs.to_partialvalue_iter().enumerate() {
            if i < 16 {
                out.insert(format!("contains-own-partialvalue[{i}]"), format!("{}", vs.contains(&pv)));
            }
        }
        for v in vs.to_value_iter() {
            match &v {
                Value::Cred(tag, c) => {
                    let Some(gc) = g.vals.iter().find_map(|x| match x {
                        GV::Cred { tag: t, cred } if t == tag => Some(cred),
                        _ => None,
                    }) else {
                        continue;
                    };
                    let key = format!("cred[{tag}]");
                    out.insert(format!("{key}:kind"), hk::cred_kind(c).to_string());
                    out.insert(format!("{key}:uuid"), hk::cred_uuid(c).to_string());
                    out.insert(format!("{key}:timestamp"), c.timestamp().to_string());
                    out.insert(format!("{key}:is_mfa"), c.is_mfa().to_string());
                    if let Ok(pw) = c.password_ref() {
                        probe_pw(&mut out, &key, pw, &gc.pw.clear(), matches!(gc.pw, GPw::Import { idx, .. } if idx % IMPORTS.len() as u8 == DEAR_IMPORT));
                    }
                    for (l, t) in hk::cred_totps(c) {
                        probe_totp(&mut out, &format!("{key}:totp[{l}]"), &t);
                    }
                    if let Some(codes) = &gc.backup {
                        for code in codes.iter().map(|s| s.as_str()).chain(["nope"]) {
                            out.insert(format!("{key}:backup({code})"), format!("{:?}", hk::cred_backup_code_verify(c, code)));
                        }
                    }
                }
                Value::TotpSecret(l, t) => probe_totp(&mut out, &format!("totp[{l}]"), t),
                Value::ApplicationPassword(ap) => {
                    let (u, app, label, pw) = hk::apppwd_parts(ap);
                    // which of several generated passwords with the same (application, label) the set
                    // keeps is the set's business: probe only when the model is unambiguous
                    let cands: Vec<&String> = g
                        .vals
                        .iter()
                        .filter_map(|x| match x {
                            GV::AppPw { app: a, label: l, clear } if uuid_n(*a) == app && *l == label => Some(clear),
                            _ => None,
                        })
                        .collect();
                    if let [clear] = cands.as_slice() {
                        let _ = u;
                        probe_pw(&mut out, &format!("apppw[{app}/{label}]"), &pw, clear, false);
                    }
                }
                Value::Session(u, s) => {
                    out.insert(format!("session[{u}]:state"), format!("{:?}", s.state));
                    out.insert(format!("session[{u}]:scope/type"), format!("{:?}/{:?}", s.scope, s.type_));
                }
                Value::Oauth2Session(u, s) => {
                    out.insert(format!("o2session[{u}]:state"), format!("{:?}", s.state));
                    // queries keyed by the resource server (used when a client is deleted) must behave
                    // the same on a reloaded set: the derived rs filter has to be rebuilt on load
                    // (a session id never changes its resource server in real use; generated sets that
                    // re-use an id with another rs are outside the callers' contract and are not probed)
                    let mut ids: Vec<u64> = g.vals.iter().filter_map(|x| match x { GV::O2Session { id, .. } => Some(*id), _ => None }).collect();
                    let n_ids = ids.len();
                    ids.sort();
                    ids.dedup();
                    if ids.len() != n_ids {
                        continue;
                    }
                    let pv = PartialValue::Refer(s.rs_uuid);
                    out.insert(format!("o2session:contains-by-rs[{}]", s.rs_uuid), format!("{}", vs.contains(&pv)));
                    let mut c = vs.clone();
                    let removed = c.remove(&pv, &Cid::new_lamport(Uuid::nil(), std::time::Duration::from_secs(9), &std::time::Duration::from_secs(1)));
                    let mut states: Vec<String> = c.to_value_iter().map(|v| match v { Value::Oauth2Session(u2, s2) => format!("{u2}:{:?}", s2.state), _ => String::new() }).collect();
                    states.sort();
                    out.insert(format!("o2session:remove-by-rs[{}]", s.rs_uuid), format!("{removed} -> {states:?}"));
                }
                Value::ApiToken(u, s) => {
                    out.insert(format!("apitoken[{u}]:expiry/scope"), format!("{:?}/{:?}", s.expiry, s.scope));
                }
                Value::KeyInternal { status, status_cid, .. } => {
                    let id = hk::key_internal_parts(&v).map(|p| p.0).unwrap_or_default();
                    out.insert(format!("key[{id}]:status"), format!("{status:?}@{status_cid:?}"));
                }
                _ => {}
            }
        }
        out
    }

    /// What the model demands of `behaviour` before storage: right cleartext verifies, every
    /// near-miss does not. Returns the first disagreement (a corpus/harness problem, not a C12 violation).
    pub fn behaviour_model_check(obs: &BTreeMap<String, String>) -> Result<usize, String> {
        let mut n = 0;
        for (k, v) in obs {
            if k.ends_with(":verify(right)") {
                n += 1;
                if v != "Ok(true)" {
                    return Err(format!("{k} = {v} before storage"));
                }
            } else if k.contains(":verify(near-miss") && v != "Ok(false)" {
                return Err(format!("{k} = {v} before storage"));
            }
        }
        Ok(n)
    }

    pub fn behaviour_diff(before: &BTreeMap<String, String>, after: &BTreeMap<String, String>) -> Option<String> {
        let keys: BTreeSet<&String> = before.keys().chain(after.keys()).collect();
        for k in keys {
            if before.get(k) != after.get(k) {
                return Some(format!("{k}: {:?} before, {:?} after", before.get(k), after.get(k)));
            }
        }
        None
    }

    pub fn syntax_name(s: SyntaxType) -> String {
        format!("{s:?}")
    }
}

// =================================================================================================
/// Backup / restore helpers (C12, C13).
pub mod bak {
    use crate::srv;
    use kanidm_proto::backup::BackupCompression;
    use kanidm_proto::internal::FsType;
    use kanidmd_lib::be::{Backend, BackendConfig, BackendTransaction};
    use kanidmd_lib::prelude::*;
    use kanidmd_lib::schema::Schema;

    pub fn compression(gzip: bool) -> BackupCompression {
        if gzip {
            BackupCompression::Gzip
        } else {
            BackupCompression::NoCompression
        }
    }

    /// Backup of the database as seen by a read transaction.
    pub fn backup(r: &mut QueryServerReadTransaction<'_>, gzip: bool) -> Result<Vec<u8>, OperationError> {
        let mut out: Vec<u8> = Vec::new();
        r.get_be_txn().backup(&mut out, compression(gzip))?;
        Ok(out)
    }

    /// A fresh, empty in-memory backend with the core (in-memory) schema's index metadata,
    /// as `restore_server_core` sets it up.
    pub fn fresh_backend() -> Result<(Backend, Schema), OperationError> {
        let schema = Schema::new()?;
        let idxmeta = {
            let w = schema.write();
            w.reload_idxmeta()
        };
        let cfg = BackendConfig::new(None, 1, FsType::Generic, Some(2048));
        Ok((Backend::new(cfg, idxmeta, false)?, schema))
    }

    /// restore + commit + reindex + commit, exactly the steps of `restore_server_core`.
    pub fn restore_into(be: &Backend, data: &[u8], gzip: bool) -> Result<(), OperationError> {
        let mut w = be.write()?;
        w.restore(data, compression(gzip))?;
        w.commit()?;
        let mut w = be.write()?;
        w.reindex(true)?;
        w.commit()
    }

    /// Restore into a fresh in-memory backend (not yet started).
    pub fn restore_fresh(data: &[u8], gzip: bool) -> Result<(Backend, Schema), OperationError> {
        let (be, schema) = fresh_backend()?;
        restore_into(&be, data, gzip)?;
        Ok((be, schema))
    }

    /// Start a query server on a restored backend (`initialise_helper` at `now`, as a normal server start does).
    pub async fn start(be: Backend, schema: Schema, now: Duration) -> Result<QueryServer, OperationError> {
        let qs = QueryServer::new(be, schema, srv::DOMAIN.to_string(), now)?;
        qs.initialise_helper(now, DOMAIN_TGT_LEVEL).await?;
        Ok(qs)
    }

    /// Restore into a fresh backend and start a query server on it.
    pub async fn restore_and_start(data: &[u8], gzip: bool, now: Duration) -> Result<QueryServer, OperationError> {
        let (be, schema) = restore_fresh(data, gzip)?;
        start(be, schema, now).await
    }

    /// A file-backed backend at `path` (pool 1) with the core schema's index metadata.
    pub fn file_backend(path: &std::path::Path) -> Result<(Backend, Schema), OperationError> {
        let schema = Schema::new()?;
        let idxmeta = {
            let w = schema.write();
            w.reload_idxmeta()
        };
        let cfg = BackendConfig::new(Some(path), 1, FsType::Generic, Some(2048));
        Ok((Backend::new(cfg, idxmeta, false)?, schema))
    }
}

// =================================================================================================
/// C12 end-to-end: generated populations through a real server and every way an entry travels.
pub mod e2e {
    use super::bak;
    use super::val::{self, GCred, GPw, GSession, GSet, GTime, GV};
    use crate::dump;
    use crate::inv::E;
    use crate::ops::Node;
    use crate::repl::{Cluster, ReplResult};
    use kanidmd_lib::prelude::*;
    use kanidmd_lib::schema::SchemaTransaction;
    use kanidmd_lib::valueset::ValueSet;
    use proptest::prelude::*;
    use serde::{Deserialize, Serialize};
    use std::collections::{BTreeMap, BTreeSet};
    use vf_core::{CaseLog, Outcome};

    #[derive(Debug, Clone, Serialize, Deserialize)]
    pub struct PSpec {
        pub display: String,
        pub legal: Option<String>,
        pub mails: Vec<(String, bool)>,
        pub cred: Option<GCred>,
        pub unix: Option<GPw>,
        pub ssh: Vec<(String, u8)>,
        pub expire: Option<GTime>,
        pub valid_from: Option<GTime>,
        pub sessions: Vec<(u64, GSession)>,
        pub radius: Option<String>,
    }
    #[derive(Debug, Clone, Serialize, Deserialize)]
    pub struct SSpec {
        pub desc: Option<String>,
        pub tokens: Vec<GV>,
    }
    #[derive(Debug, Clone, Serialize, Deserialize)]
    pub struct GSpec {
        pub desc: Option<String>,
        pub members: Vec<u8>,
        /// account policy values: (auth_session_expiry, privilege_expiry, min pw len, credential type, attestation ca mask, fallback)
        pub policy: Option<(u32, u32, u32, u8, Option<u8>, bool)>,
    }
    #[derive(Debug, Clone, Serialize, Deserialize)]
    pub struct OSpec {
        pub display: String,
        pub url: u8,
        pub scopes: Vec<String>,
        pub claim: Option<(String, Vec<String>, u8)>,
        pub image: Option<u8>,
        pub pkce_off: bool,
    }
    #[derive(Debug, Clone, Serialize, Deserialize)]
    pub struct Case {
        pub persons: Vec<PSpec>,
        pub services: Vec<SSpec>,
        pub groups: Vec<GSpec>,
        pub oauth: Option<OSpec>,
        pub gzip: bool,
    }

    fn pspec() -> BoxedStrategy<PSpec> {
        let mail = (proptest::sample::select(vec!["a", "b", "c.d", "Zed"]), proptest::sample::select(vec!["example.com", "mail.example.org"]), any::<bool>())
            .prop_map(|(l, d, p)| (format!("{l}@{d}"), p));
        let sess = match val::gv_of_kind(28).prop_map(|v| match v {
            GV::Session { id, s } => (id, s),
            _ => unreachable!(),
        }) {
            s => s,
        };
        (
            (val::ustr(8).prop_map(|s| format!("d{s}")), proptest::option::of(val::ustr(8).prop_map(|s| format!("l{s}")))),
            proptest::collection::vec(mail, 0..3),
            proptest::option::weighted(0.85, val::gcred()),
            proptest::option::weighted(0.3, val::gpw()),
            proptest::collection::vec((proptest::sample::select(vec!["k1", "k2", "laptop"]).prop_map(String::from), 0u8..3), 0..3),
            (proptest::option::of(val::gtime()), proptest::option::of(val::gtime())),
            proptest::collection::vec(sess, 0..3),
            proptest::option::of(val::ustr(10).prop_map(|s| format!("r{s}"))),
        )
            .prop_map(|((display, legal), mails, cred, unix, ssh, (expire, valid_from), sessions, radius)| PSpec {
                display,
                legal,
                mails,
                cred,
                unix,
                ssh,
                expire,
                valid_from,
                sessions,
                radius,
            })
            .boxed()
    }

    pub fn arb_case() -> BoxedStrategy<Case> {
        let sspec = (proptest::option::of(val::ustr(6).prop_map(|s| format!("s{s}"))), proptest::collection::vec(val::gv_of_kind(29), 0..3)).prop_map(|(desc, tokens)| SSpec { desc, tokens });
        let gspec = (
            proptest::option::of(val::ustr(6).prop_map(|s| format!("g{s}"))),
            proptest::collection::vec(0u8..4, 0..3),
            proptest::option::of((1u32..100_000, 1u32..3600, 1u32..32, 0u8..6, proptest::option::of(0u8..8), any::<bool>())),
        )
            .prop_map(|(desc, members, policy)| GSpec { desc, members, policy });
        let ospec = (
            val::ustr(6).prop_map(|s| format!("o{s}")),
            0u8..2,
            proptest::collection::vec(proptest::sample::select(vec!["read", "write", "email"]).prop_map(String::from), 1..3),
            proptest::option::of((proptest::sample::select(vec!["role", "dept"]).prop_map(String::from), proptest::collection::vec(proptest::sample::select(vec!["admin", "user", "x_y"]).prop_map(String::from), 1..3), 0u8..3)),
            proptest::option::of(0u8..5),
            any::<bool>(),
        )
            .prop_map(|(display, url, scopes, claim, image, pkce_off)| OSpec {
                display,
                url,
                scopes,
                claim,
                image,
                pkce_off,
            });
        (
            proptest::collection::vec(pspec(), 1..4),
            proptest::collection::vec(sspec, 0..2),
            proptest::collection::vec(gspec, 0..3),
            proptest::option::of(ospec),
            any::<bool>(),
        )
            .prop_map(|(persons, services, groups, oauth, gzip)| Case {
                persons,
                services,
                groups,
                oauth,
                gzip,
            })
            .boxed()
    }

    pub fn p_uuid(i: usize) -> Uuid {
        crate::pop::person_uuid(i as u32)
    }
    pub fn s_uuid(i: usize) -> Uuid {
        crate::pop::service_uuid(i as u32)
    }
    pub fn g_uuid(i: usize) -> Uuid {
        crate::pop::group_uuid(i as u32)
    }
    pub fn o_uuid() -> Uuid {
        crate::pop::uuid_of(crate::pop::Kind::OAuth2, 0)
    }

    /// What the model remembers of an attribute it set: the generated set (for behaviour) and the
    /// value set that was handed to the server.
    pub struct Put {
        pub uuid: Uuid,
        pub attr: Attribute,
        pub g: GSet,
        pub vs: ValueSet,
    }

    fn put(e: &mut crate::pop::NewEntry, puts: &mut Vec<Put>, uuid: Uuid, attr: Attribute, vals: Vec<GV>) {
        if vals.is_empty() {
            return;
        }
        let g = GSet { vals };
        if let Some(vs) = g.build() {
            e.set_ava_set(&attr, vs.clone());
            puts.push(Put { uuid, attr, g, vs });
        }
    }

    /// Build the entries of a case. Returns (kind label, entry) pairs and the model.
    pub fn build(c: &Case) -> (Vec<(&'static str, crate::pop::NewEntry)>, Vec<Put>) {
        let mut out = Vec::new();
        let mut puts = Vec::new();
        for (i, p) in c.persons.iter().enumerate() {
            let u = p_uuid(i);
            let mut e = crate::pop::person(u, &format!("person{i}"));
            put(&mut e, &mut puts, u, Attribute::DisplayName, vec![GV::Utf8(p.display.clone())]);
            if let Some(l) = &p.legal {
                put(&mut e, &mut puts, u, Attribute::LegalName, vec![GV::Utf8(l.clone())]);
            }
            put(&mut e, &mut puts, u, Attribute::Mail, p.mails.iter().map(|(a, pr)| GV::Email { addr: a.clone(), primary: *pr }).collect());
            if let Some(cr) = &p.cred {
                put(&mut e, &mut puts, u, Attribute::PrimaryCredential, vec![GV::Cred { tag: "primary".into(), cred: cr.clone() }]);
            }
            if let Some(pw) = &p.unix {
                e.add_ava(Attribute::Class, EntryClass::PosixAccount.to_value());
                put(
                    &mut e,
                    &mut puts,
                    u,
                    Attribute::UnixPassword,
                    vec![GV::Cred {
                        tag: "unix".into(),
                        cred: GCred {
                            pw: pw.clone(),
                            generated: false,
                            totp: vec![],
                            backup: None,
                            ts: GTime { secs: 700_000_000, nanos: 0 },
                        },
                    }],
                );
            }
            let mut tags = BTreeSet::new();
            put(
                &mut e,
                &mut puts,
                u,
                Attribute::SshPublicKey,
                p.ssh.iter().filter(|(t, _)| tags.insert(t.clone())).map(|(t, k)| GV::SshKey { tag: t.clone(), key: *k }).collect(),
            );
            if let Some(t) = p.expire {
                put(&mut e, &mut puts, u, Attribute::AccountExpire, vec![GV::DateTime(t)]);
            }
            if let Some(t) = p.valid_from {
                put(&mut e, &mut puts, u, Attribute::AccountValidFrom, vec![GV::DateTime(t)]);
            }
            let mut ids = BTreeSet::new();
            put(
                &mut e,
                &mut puts,
                u,
                Attribute::UserAuthTokenSession,
                p.sessions.iter().filter(|(id, _)| ids.insert(*id)).map(|(id, s)| GV::Session { id: *id, s: s.clone() }).collect(),
            );
            if let Some(r) = &p.radius {
                put(&mut e, &mut puts, u, Attribute::RadiusSecret, vec![GV::Secret(r.clone())]);
            }
            out.push(("person", e));
        }
        for (i, s) in c.services.iter().enumerate() {
            let u = s_uuid(i);
            let mut e = crate::pop::service(u, &format!("service{i}"));
            if let Some(d) = &s.desc {
                put(&mut e, &mut puts, u, Attribute::Description, vec![GV::Utf8(d.clone())]);
            }
            let mut ids = BTreeSet::new();
            put(
                &mut e,
                &mut puts,
                u,
                Attribute::ApiTokenSession,
                s.tokens
                    .iter()
                    .filter(|t| match t {
                        GV::ApiToken { id, .. } => ids.insert(*id),
                        _ => false,
                    })
                    .cloned()
                    .collect(),
            );
            out.push(("service", e));
        }
        for (i, g) in c.groups.iter().enumerate() {
            let u = g_uuid(i);
            let members: Vec<Uuid> = g.members.iter().filter(|m| (**m as usize) < c.persons.len()).map(|m| p_uuid(*m as usize)).collect();
            let mut e = crate::pop::group(u, &format!("group{i}"), &members);
            if let Some(d) = &g.desc {
                put(&mut e, &mut puts, u, Attribute::Description, vec![GV::Utf8(d.clone())]);
            }
            if let Some((ase, pe, minlen, ct, ca, fb)) = &g.policy {
                e.add_ava(Attribute::Class, EntryClass::AccountPolicy.to_value());
                put(&mut e, &mut puts, u, Attribute::AuthSessionExpiry, vec![GV::Uint32(*ase)]);
                put(&mut e, &mut puts, u, Attribute::PrivilegeExpiry, vec![GV::Uint32(*pe)]);
                put(&mut e, &mut puts, u, Attribute::AuthPasswordMinimumLength, vec![GV::Uint32(*minlen)]);
                put(&mut e, &mut puts, u, Attribute::CredentialTypeMinimum, vec![GV::CredType(*ct)]);
                if let Some(mask) = ca {
                    put(&mut e, &mut puts, u, Attribute::WebauthnAttestationCaList, vec![GV::AttCa { mask: *mask, aaguid: 1 }]);
                }
                put(&mut e, &mut puts, u, Attribute::AllowPrimaryCredFallback, vec![GV::Bool(*fb)]);
            }
            out.push(("group", e));
        }
        if let Some(o) = &c.oauth {
            let u = o_uuid();
            let mut e: crate::pop::NewEntry = kanidmd_lib::entry::Entry::new();
            e.add_ava(Attribute::Class, EntryClass::Object.to_value());
            e.add_ava(Attribute::Class, EntryClass::Account.to_value());
            e.add_ava(Attribute::Class, EntryClass::OAuth2ResourceServer.to_value());
            e.add_ava(Attribute::Class, EntryClass::OAuth2ResourceServerBasic.to_value());
            e.add_ava(Attribute::Uuid, Value::Uuid(u));
            e.add_ava(Attribute::Name, Value::new_iname("oauthclient"));
            put(&mut e, &mut puts, u, Attribute::DisplayName, vec![GV::Utf8(o.display.clone())]);
            put(&mut e, &mut puts, u, Attribute::OAuth2RsOriginLanding, vec![GV::Url(o.url, String::new())]);
            if !c.groups.is_empty() {
                // pop uuids are not `uuid_n`; build this value directly
                if let Some(v) = Value::new_oauthscopemap(g_uuid(0), o.scopes.iter().cloned().collect()) {
                    e.add_ava(Attribute::OAuth2RsScopeMap, v);
                }
                if let Some((name, claims, join)) = &o.claim {
                    if let Some(v) = Value::new_oauthclaimmap(name.clone(), g_uuid(0), claims.iter().cloned().collect()) {
                        e.add_ava(Attribute::OAuth2RsClaimMap, v);
                        let _ = join;
                    }
                }
            }
            if let Some(img) = o.image {
                put(&mut e, &mut puts, u, Attribute::Image, vec![GV::Image { name: "logo".into(), img }]);
            }
            if o.pkce_off {
                put(&mut e, &mut puts, u, Attribute::OAuth2AllowInsecureClientDisablePkce, vec![GV::Bool(true)]);
            }
            out.push(("oauth2", e));
        }
        (out, puts)
    }

    /// Deep difference of two snapshots of the database (every attribute of every entry).
    /// `only`: restrict to these attributes (replication carries replicated attributes only).
    pub fn entries_diff(a: &[E], b: &[E], only: Option<&BTreeSet<Attribute>>, hist: &mut BTreeMap<String, u64>) -> Option<(String, String)> {
        let bm: BTreeMap<Uuid, &E> = b.iter().map(|e| (e.get_uuid(), e)).collect();
        if a.len() != b.len() {
            let au: BTreeSet<Uuid> = a.iter().map(|e| e.get_uuid()).collect();
            let bu: BTreeSet<Uuid> = bm.keys().copied().collect();
            return Some((
                "entry set differs".into(),
                format!("only before: {:?}; only after: {:?}", au.difference(&bu).collect::<Vec<_>>(), bu.difference(&au).collect::<Vec<_>>()),
            ));
        }
        for ea in a {
            let Some(eb) = bm.get(&ea.get_uuid()) else {
                return Some(("entry set differs".into(), format!("{} missing", ea.get_uuid())));
            };
            let names: BTreeSet<&Attribute> = ea.get_ava().keys().chain(eb.get_ava().keys()).collect();
            for n in names {
                if only.is_some_and(|o| !o.contains(n)) {
                    continue;
                }
                // an empty value set still held in memory and an absent attribute are the same stored
                // state (kanidm documents this quirk in ReplEntryV1::new)
                fn nz(o: Option<&ValueSet>) -> Option<&ValueSet> {
                    o.filter(|v| !v.is_empty())
                }
                match (nz(ea.get_ava_set(n)), nz(eb.get_ava_set(n))) {
                    (Some(x), Some(y)) => {
                        *hist.entry(val::syntax_name(x.syntax())).or_default() += 1;
                        if let Err(d) = val::same(x, y) {
                            return Some((format!("{:?} attribute differs", x.syntax()), format!("entry {} attr {n}: {d}", ea.get_uuid())));
                        }
                    }
                    (None, None) => {}
                    (x, y) => {
                        return Some((
                            "attribute presence differs".into(),
                            format!("entry {} attr {n}: before {:?}, after {:?}", ea.get_uuid(), x.map(|v| v.len()), y.map(|v| v.len())),
                        ))
                    }
                }
            }
        }
        None
    }

    /// Model check of one snapshot: every attribute the model put must read back equal, and every
    /// credential must behave as the model says.
    pub fn model_check(log: &mut CaseLog, puts: &[Put], created: &BTreeSet<Uuid>, snap: &[E], leg: &str, only: Option<&BTreeSet<Attribute>>) {
        let m: BTreeMap<Uuid, &E> = snap.iter().map(|e| (e.get_uuid(), e)).collect();
        for p in puts {
            if !created.contains(&p.uuid) || only.is_some_and(|o| !o.contains(&p.attr)) {
                continue;
            }
            let Some(e) = m.get(&p.uuid) else {
                log.fail(format!("created entry missing after {leg}"), format!("{}", p.uuid));
                return;
            };
            // sessions are legitimately rewritten by the session-consistency plugin at create time
            if p.attr == Attribute::UserAuthTokenSession || p.attr == Attribute::ApiTokenSession {
                continue;
            }
            let Some(got) = e.get_ava_set(&p.attr) else {
                log.fail(format!("{}: attribute lost after {leg}", p.g.kind()), format!("entry {} attr {}", p.uuid, p.attr));
                return;
            };
            let before = val::behaviour(&p.vs, &p.g);
            let after = val::behaviour(got, &p.g);
            if let Some(d) = val::behaviour_diff(&before, &after) {
                let mut kind = p.g.kind();
                if let Some(GV::Cred { cred, .. }) = p.g.vals.first() {
                    kind = format!("Cred[{}]", cred.pw.label());
                }
                log.fail(format!("{kind}: behaviour changed after {leg}"), format!("entry {} attr {}: {d}", p.uuid, p.attr));
                return;
            }
            if let Err(d) = val::same(&p.vs, got) {
                log.fail(format!("{}: value not equal after {leg}", p.g.kind()), format!("entry {} attr {}: {d}", p.uuid, p.attr));
                return;
            }
        }
    }

    async fn snapshot(qs: &QueryServer) -> Vec<E> {
        let mut r = qs.read().await.expect("read");
        let mut v = dump::all_entries(&mut r).expect("entries");
        v.sort_by_key(|e| e.get_uuid());
        v
    }

    async fn replicated_attrs(qs: &QueryServer) -> BTreeSet<Attribute> {
        let r = qs.read().await.expect("read");
        let s = r.get_schema();
        s.get_attributes().keys().filter(|a| s.is_replicated(a)).cloned().collect()
    }

    pub fn run(rt: &tokio::runtime::Runtime, c: &Case) -> Outcome {
        let mut log = CaseLog::new();
        let mut hist: BTreeMap<String, u64> = BTreeMap::new();
        rt.block_on(async {
            let (entries, puts) = build(c);
            // B is refreshed from A *before* the population exists, so that the population travels incrementally
            let mut cl = Cluster::new(2).await;
            let mut created: BTreeSet<Uuid> = BTreeSet::new();
            for (kind, e) in entries {
                let u = e.get_uuid().expect("uuid");
                let now = cl.nodes[0].now();
                let mut w = cl.nodes[0].qs.write(now).await.expect("write");
                match w.internal_create(vec![e]).and_then(|_| w.commit()) {
                    Ok(()) => {
                        created.insert(u);
                        log.class(format!("e2e:created:{kind}"));
                        cl.nodes[0].clock += 1;
                    }
                    Err(err) => {
                        log.class(format!("e2e:refused:{kind}:{err:?}").chars().take(80).collect::<String>());
                    }
                }
            }
            if created.is_empty() {
                return;
            }
            let has_cred = puts.iter().any(|p| created.contains(&p.uuid) && matches!(p.g.vals.first(), Some(GV::Cred { .. })));
            if has_cred {
                log.nontrivial();
            }
            for p in &puts {
                if created.contains(&p.uuid) {
                    if let Some(GV::Cred { cred, .. }) = p.g.vals.first() {
                        log.class(format!("e2e:{}", cred.pw.label()));
                    }
                }
            }
            // --- leg: create -> new read txn
            let e0 = snapshot(&cl.nodes[0].qs).await;
            model_check(&mut log, &puts, &created, &e0, "server create + read", None);
            if log.failed() {
                return;
            }
            // --- leg: cold caches
            {
                let now = cl.nodes[0].now();
                let mut w = cl.nodes[0].qs.write(now).await.expect("write");
                w.clear_cache().expect("clear cache");
                w.commit().expect("commit");
                cl.nodes[0].clock += 1;
            }
            let e1 = snapshot(&cl.nodes[0].qs).await;
            if let Some((sig, d)) = entries_diff(&e0, &e1, None, &mut hist) {
                log.fail(format!("{sig} after cache clear"), d);
                return;
            }
            model_check(&mut log, &puts, &created, &e1, "cache clear", None);
            if log.failed() {
                return;
            }
            // --- leg: backup -> restore into a fresh backend -> started server
            let data = {
                let mut r = cl.nodes[0].qs.read().await.expect("read");
                bak::backup(&mut r, c.gzip).expect("backup")
            };
            let now = cl.nodes[0].now();
            match bak::restore_and_start(&data, c.gzip, now).await {
                Ok(qs2) => {
                    let e2 = snapshot(&qs2).await;
                    model_check(&mut log, &puts, &created, &e2, "backup + restore", None);
                    if log.failed() {
                        return;
                    }
                    // the population entries must be identical attribute for attribute
                    let pick = |v: &[E]| -> Vec<E> { v.iter().filter(|e| created.contains(&e.get_uuid())).cloned().collect() };
                    if let Some((sig, d)) = entries_diff(&pick(&e1), &pick(&e2), None, &mut hist) {
                        log.fail(format!("{sig} after backup + restore"), d);
                        return;
                    }
                    log.class("e2e:restored");
                    log.class(if c.gzip { "e2e:gzip" } else { "e2e:plain" });
                }
                Err(err) => {
                    log.fail("restore of an own backup refused", format!("{err:?}"));
                    return;
                }
            }
            // --- leg: incremental replication A -> B
            let repl = replicated_attrs(&cl.nodes[0].qs).await;
            match cl.replicate(0, 1).await {
                ReplResult::Applied => {
                    let e3 = snapshot(&cl.nodes[1].qs).await;
                    model_check(&mut log, &puts, &created, &e3, "incremental replication", Some(&repl));
                    if log.failed() {
                        return;
                    }
                    let pick = |v: &[E]| -> Vec<E> { v.iter().filter(|e| created.contains(&e.get_uuid())).cloned().collect() };
                    if let Some((sig, d)) = entries_diff(&pick(&e1), &pick(&e3), Some(&repl), &mut hist) {
                        log.fail(format!("{sig} after incremental replication"), d);
                        return;
                    }
                    log.class("e2e:incremental-applied");
                }
                other => {
                    log.fail("incremental replication of a fresh population not applied", format!("{other:?}"));
                    return;
                }
            }
            // --- leg: refresh A -> new node C
            let mut c_node = Node::new().await;
            {
                let ctx = {
                    let mut r = cl.nodes[0].qs.read().await.expect("read");
                    r.supplier_provide_refresh().expect("refresh ctx")
                };
                let now = c_node.now();
                let mut w = c_node.qs.write(now).await.expect("write");
                match w.consumer_apply_refresh(ctx).and_then(|_| w.commit()) {
                    Ok(()) => {
                        c_node.clock += 1;
                    }
                    Err(err) => {
                        log.fail("refresh refused", format!("{err:?}"));
                        return;
                    }
                }
            }
            let e4 = snapshot(&c_node.qs).await;
            model_check(&mut log, &puts, &created, &e4, "replication refresh", Some(&repl));
            if log.failed() {
                return;
            }
            let pick = |v: &[E]| -> Vec<E> { v.iter().filter(|e| created.contains(&e.get_uuid())).cloned().collect() };
            if let Some((sig, d)) = entries_diff(&pick(&e1), &pick(&e4), Some(&repl), &mut hist) {
                log.fail(format!("{sig} after replication refresh"), d);
                return;
            }
            log.class("e2e:refreshed");
        });
        for (k, _) in hist {
            log.class(format!("e2e-syntax:{k}"));
        }
        log.finish()
    }
}

// =================================================================================================
/// C03: from-scratch reference index and name tables, compared with the raw tables.
pub mod idx {
    use crate::dump::{self, Status};
    use crate::inv::E;
    use kanidmd_lib::be::BackendTransaction;
    use kanidmd_lib::prelude::*;
    use kanidmd_lib::value::IndexType;
    use kanidmd_lib::verif_hooks::storage as hk;
    use std::collections::{BTreeMap, BTreeSet};

    pub type Key = (Attribute, IndexType);
    pub type IndexModel = BTreeMap<Key, BTreeMap<String, BTreeSet<u64>>>;

    pub fn table_name(k: &Key) -> String {
        format!("idx_{}_{}", k.1.as_idx_str(), k.0.as_str())
    }

    /// The index a from-scratch build over `entries` would contain for the index keys `meta`.
    /// Every stored entry counts (recycled entries and tombstones are indexed for what they hold).
    pub fn reference_index(meta: &[Key], entries: &[E]) -> IndexModel {
        let mut m: IndexModel = BTreeMap::new();
        for k in meta {
            let t = m.entry(k.clone()).or_default();
            for e in entries {
                let Some(vs) = e.get_ava_set(&k.0) else { continue };
                if vs.is_empty() {
                    continue;
                }
                let keys: Vec<String> = match k.1 {
                    IndexType::Equality => vs.generate_idx_eq_keys(),
                    IndexType::Presence => vec!["_".to_string()],
                    IndexType::SubString => vs.generate_idx_sub_keys(),
                    IndexType::Ordering => vs.generate_idx_ord_keys(),
                };
                for key in keys {
                    t.entry(key).or_default().insert(e.get_id());
                }
            }
        }
        m
    }

    #[derive(Debug, Default, PartialEq, Eq)]
    pub struct NameModel {
        pub name2uuid: BTreeMap<String, Uuid>,
        /// names claimed by more than one live entry (expectation undefined; skipped)
        pub ambiguous: BTreeSet<String>,
        pub externalid2uuid: BTreeMap<String, Uuid>,
        pub uuid2spn: BTreeMap<Uuid, String>,
        pub uuid2rdn: BTreeMap<Uuid, String>,
    }

    fn single_proto(e: &E, a: Attribute) -> Option<String> {
        let vs = e.get_ava_set(a)?;
        if vs.len() != 1 {
            return None;
        }
        vs.to_proto_string_clone_iter().next()
    }

    /// Rendering used to compare uuid2spn values (Spn / Iname / Uuid) without kanidm's
    /// cross-type `PartialEq` (which debug-asserts).
    pub fn spn_value_repr(v: &Value) -> String {
        match v {
            Value::Spn(n, d) => format!("spn:{n}@{d}"),
            Value::Iname(n) => format!("iname:{n}"),
            Value::Uuid(u) => format!("uuid:{u}"),
            other => format!("other:{other:?}"),
        }
    }

    /// Name tables rebuilt from the live (neither recycled nor tombstone) entries.
    pub fn reference_names(entries: &[E]) -> NameModel {
        let mut m = NameModel::default();
        for e in entries {
            if matches!(dump::status_of(e), Status::Recycled | Status::Tombstone) || e.has_class(&EntryClass::Recycled) {
                continue;
            }
            let u = e.get_uuid();
            for a in [Attribute::Spn, Attribute::Name, Attribute::GidNumber] {
                if let Some(vs) = e.get_ava_set(a) {
                    for s in vs.to_proto_string_clone_iter() {
                        match m.name2uuid.get(&s) {
                            Some(prev) if *prev != u => {
                                m.ambiguous.insert(s);
                            }
                            _ => {
                                m.name2uuid.insert(s, u);
                            }
                        }
                    }
                }
            }
            if let Some(x) = single_proto(e, Attribute::SyncExternalId) {
                m.externalid2uuid.insert(x, u);
            }
            let spn = e.get_ava_set(Attribute::Spn).filter(|v| v.len() == 1).and_then(|v| v.to_value_iter().next());
            let name = e.get_ava_set(Attribute::Name).filter(|v| v.len() == 1).and_then(|v| v.to_value_iter().next());
            let sv = spn.clone().or(name.clone()).unwrap_or(Value::Uuid(u));
            m.uuid2spn.insert(u, spn_value_repr(&sv));
            let rdn = match (single_proto(e, Attribute::Spn), single_proto(e, Attribute::Name)) {
                (Some(s), _) => format!("spn={s}"),
                (None, Some(n)) => format!("name={n}"),
                (None, None) => format!("uuid={}", u.as_hyphenated()),
            };
            m.uuid2rdn.insert(u, rdn);
        }
        for a in &m.ambiguous {
            m.name2uuid.remove(a);
        }
        m
    }

    /// Raw content of all index tables named by `meta`: table -> key -> ids (empty id lists dropped
    /// but counted).
    pub struct Raw {
        pub tables: BTreeSet<String>,
        pub content: BTreeMap<Key, BTreeMap<String, BTreeSet<u64>>>,
        pub empty_keys: usize,
    }

    pub fn raw_index(r: &mut QueryServerReadTransaction<'_>, meta: &[Key]) -> Result<Raw, String> {
        let be = r.get_be_txn();
        let tables: BTreeSet<String> = be.list_indexes().map_err(|e| format!("list_indexes {e:?}"))?.into_iter().collect();
        let mut content = BTreeMap::new();
        let mut empty_keys = 0;
        for k in meta {
            let name = table_name(k);
            if !tables.contains(&name) {
                continue;
            }
            let rows = be.list_index_content(&name).map_err(|e| format!("list_index_content {name} {e:?}"))?;
            let mut t: BTreeMap<String, BTreeSet<u64>> = BTreeMap::new();
            for (key, idl) in rows {
                let ids: BTreeSet<u64> = (&idl).into_iter().collect();
                if ids.is_empty() {
                    empty_keys += 1;
                } else {
                    t.insert(key, ids);
                }
            }
            content.insert(k.clone(), t);
        }
        Ok(Raw { tables, content, empty_keys })
    }

    pub const SIG_TABLE_MISSING: &str = "index table of a live index key is missing";
    pub const SIG_IDX_MISSING: &str = "index lacks an id that a stored entry produces";
    pub const SIG_IDX_STALE: &str = "index holds an id that no stored entry produces";
    pub const SIG_IDX_CACHE: &str = "index as seen through the cache differs from the stored table";
    pub const SIG_N2U: &str = "name2uuid table differs from the live entries";
    pub const SIG_E2U: &str = "externalid2uuid table differs from the live entries";
    pub const SIG_U2S: &str = "uuid2spn table differs from the live entries";
    pub const SIG_U2R: &str = "uuid2rdn table differs from the live entries";
    pub const SIG_LOOKUP: &str = "name lookup disagrees with a scan of the entries";
    pub const SIG_VERIFY: &str = "server verify() reports inconsistencies";
    pub const SIG_ALLIDS: &str = "stored entry ids differ from the entries a full search returns";

    fn text(v: &[u8]) -> String {
        String::from_utf8_lossy(v).to_string()
    }

    pub struct Stats {
        pub keys: usize,
        pub ids: usize,
        pub names: usize,
        /// verify() findings that are not about storage / indexes (variant names)
        pub other_verify: BTreeSet<String>,
    }

    /// Complete comparison for one committed state. Returns the first discrepancy.
    /// `absent_probe`: names that must resolve to nothing unless a live entry carries them.
    pub fn check_state(r: &mut QueryServerReadTransaction<'_>, entries: &[E], absent_probe: &[String]) -> Result<Stats, (&'static str, String)> {
        let meta: Vec<Key> = hk::be::idxmeta_keys(r.get_be_txn());
        let want = reference_index(&meta, entries);
        let raw = raw_index(r, &meta).map_err(|e| ("harness: raw index read failed", e))?;
        let mut stats = Stats { keys: 0, ids: 0, names: 0, other_verify: BTreeSet::new() };
        for k in &meta {
            let Some(have) = raw.content.get(k) else {
                return Err((SIG_TABLE_MISSING, format!("{} (index key {:?})", table_name(k), k)));
            };
            let w = want.get(k).cloned().unwrap_or_default();
            for (key, ids) in &w {
                stats.keys += 1;
                stats.ids += ids.len();
                let h = have.get(key).cloned().unwrap_or_default();
                if let Some(m) = ids.difference(&h).next() {
                    return Err((SIG_IDX_MISSING, format!("{} key {key:?}: id {m} expected (entry {}), table has {h:?}", table_name(k), who(entries, *m))));
                }
                if let Some(s) = h.difference(ids).next() {
                    return Err((SIG_IDX_STALE, format!("{} key {key:?}: id {s} ({}) is listed but the entry does not produce this key; expected {ids:?}", table_name(k), who(entries, *s))));
                }
            }
            for (key, h) in have {
                if !w.contains_key(key) {
                    let s = h.iter().next().copied().unwrap_or(0);
                    return Err((SIG_IDX_STALE, format!("{} key {key:?}: ids {h:?} listed ({}) but no stored entry produces this key", table_name(k), who(entries, s))));
                }
            }
        }
        // the same through the idl cache, for every key of either side
        {
            let be = r.get_be_txn();
            for k in &meta {
                let w = want.get(k).cloned().unwrap_or_default();
                let have = raw.content.get(k).cloned().unwrap_or_default();
                let keys: BTreeSet<&String> = w.keys().chain(have.keys()).collect();
                for key in keys {
                    let got: BTreeSet<u64> = hk::be::cached_idl(be, &k.0, k.1, key)
                        .map_err(|e| ("harness: cached idl read failed", format!("{e:?}")))?
                        .map(|v| v.into_iter().collect())
                        .unwrap_or_default();
                    let exp = w.get(key).cloned().unwrap_or_default();
                    if got != exp {
                        return Err((SIG_IDX_CACHE, format!("{} key {key:?}: through the cache {got:?}, from the entries {exp:?}", table_name(k))));
                    }
                }
            }
        }
        // name tables, raw
        let names = reference_names(entries);
        stats.names = names.name2uuid.len();
        {
            let be = r.get_be_txn();
            let raw_n2u: BTreeMap<String, String> = hk::be::raw_table(be, "idx_name2uuid", "name", "uuid").map_err(|e| ("harness: raw table", format!("{e:?}")))?.into_iter().map(|(k, v)| (k, text(&v))).collect();
            for (n, u) in &names.name2uuid {
                match raw_n2u.get(n) {
                    Some(x) if *x == u.as_hyphenated().to_string() => {}
                    other => return Err((SIG_N2U, format!("name {n:?} should map to {u}, table has {other:?}"))),
                }
            }
            for (n, x) in &raw_n2u {
                if !names.name2uuid.contains_key(n) && !names.ambiguous.contains(n) {
                    return Err((SIG_N2U, format!("stale row: name {n:?} -> {x} but no live entry carries that name")));
                }
            }
            let raw_e2u: BTreeMap<String, String> = hk::be::raw_table(be, "idx_externalid2uuid", "eid", "uuid").map_err(|e| ("harness: raw table", format!("{e:?}")))?.into_iter().map(|(k, v)| (k, text(&v))).collect();
            let want_e2u: BTreeMap<String, String> = names.externalid2uuid.iter().map(|(k, v)| (k.clone(), v.as_hyphenated().to_string())).collect();
            if raw_e2u != want_e2u {
                return Err((SIG_E2U, format!("table {raw_e2u:?}, from the entries {want_e2u:?}")));
            }
            let raw_u2s: BTreeMap<String, String> = hk::be::raw_table(be, "idx_uuid2spn", "uuid", "spn")
                .map_err(|e| ("harness: raw table", format!("{e:?}")))?
                .into_iter()
                .map(|(k, v)| (k, hk::be::decode_spn(&v).map(|v| spn_value_repr(&v)).unwrap_or_else(|| format!("undecodable:{}", text(&v)))))
                .collect();
            let want_u2s: BTreeMap<String, String> = names.uuid2spn.iter().map(|(k, v)| (k.as_hyphenated().to_string(), v.clone())).collect();
            if raw_u2s != want_u2s {
                let d = first_diff(&raw_u2s, &want_u2s);
                return Err((SIG_U2S, d));
            }
            let raw_u2r: BTreeMap<String, String> = hk::be::raw_table(be, "idx_uuid2rdn", "uuid", "rdn").map_err(|e| ("harness: raw table", format!("{e:?}")))?.into_iter().map(|(k, v)| (k, text(&v))).collect();
            let want_u2r: BTreeMap<String, String> = names.uuid2rdn.iter().map(|(k, v)| (k.as_hyphenated().to_string(), v.clone())).collect();
            if raw_u2r != want_u2r {
                return Err((SIG_U2R, first_diff(&raw_u2r, &want_u2r)));
            }
        }
        // lookups as the server resolves them (through the name cache) against the scan
        for (n, u) in &names.name2uuid {
            match r.name_to_uuid(n) {
                Ok(x) if x == *u => {}
                other => return Err((SIG_LOOKUP, format!("name_to_uuid({n:?}) = {other:?}, scan says {u}"))),
            }
        }
        for n in absent_probe {
            if names.name2uuid.contains_key(n) || names.ambiguous.contains(n) {
                continue;
            }
            match r.get_be_txn().name2uuid(n) {
                Ok(None) => {}
                other => return Err((SIG_LOOKUP, format!("name2uuid({n:?}) = {other:?} but no live entry carries that name"))),
            }
        }
        for e in entries {
            let u = e.get_uuid();
            let be = r.get_be_txn();
            let got_s = be.uuid2spn(u).map_err(|e| ("harness: uuid2spn failed", format!("{e:?}")))?.map(|v| spn_value_repr(&v));
            if got_s.as_ref() != names.uuid2spn.get(&u) {
                return Err((SIG_LOOKUP, format!("uuid2spn({u}) = {got_s:?}, scan says {:?}", names.uuid2spn.get(&u))));
            }
            let got_r = be.uuid2rdn(u).map_err(|e| ("harness: uuid2rdn failed", format!("{e:?}")))?;
            if got_r.as_ref() != names.uuid2rdn.get(&u) {
                return Err((SIG_LOOKUP, format!("uuid2rdn({u}) = {got_r:?}, scan says {:?}", names.uuid2rdn.get(&u))));
            }
        }
        for (x, u) in &names.externalid2uuid {
            match r.sync_external_id_to_uuid(x) {
                Ok(Some(g)) if g == *u => {}
                other => return Err((SIG_LOOKUP, format!("sync_external_id_to_uuid({x:?}) = {other:?}, scan says {u}"))),
            }
        }
        // verify(): only the storage / index findings belong to this property; what the plugins and
        // the change-state checker say (memberof, refint, change state, RUV ...) belongs to others
        // Stored ids vs. the ids a full search returns (what verify()'s allids comparison is about),
        // checked here directly: idlset's `PartialEq` debug-asserts equality, so with debug assertions
        // on, a mismatch inside verify() (allids or RUV) surfaces as a panic and cannot be told apart.
        {
            let raw_ids: BTreeSet<u64> = r.get_be_txn().list_id2entry().map_err(|e| ("harness: list_id2entry failed", format!("{e:?}")))?.into_iter().map(|(id, _)| id).collect();
            let ent_ids: BTreeSet<u64> = entries.iter().map(|e| e.get_id()).collect();
            if raw_ids != ent_ids {
                return Err((
                    SIG_ALLIDS,
                    format!("only in id2entry: {:?}; only returned by the search: {:?}", raw_ids.difference(&ent_ids).collect::<Vec<_>>(), ent_ids.difference(&raw_ids).collect::<Vec<_>>()),
                ));
            }
        }
        let v = match std::panic::catch_unwind(std::panic::AssertUnwindSafe(|| hk::qs_verify(r))) {
            Ok(v) => v,
            // ids and indexes were just compared exhaustively above, so the id-list mismatch that
            // fired inside verify() is the RUV's (replication metadata: not this property's subject)
            Err(_) => vec!["RuvIdListMismatchPanic(verify() hit idlset's debug assertion)".to_string()],
        };
        const MINE: [&str; 7] = ["BackendIndexSync", "BackendAllIdsSync", "SqliteIntegrityFailure", "UuidIndexCorrupt", "EntryUuidCorrupt", "Unknown", "QueryServerSearchFailure"];
        let (mine, other): (Vec<String>, Vec<String>) = v.into_iter().partition(|e| MINE.iter().any(|m| e.starts_with(m)));
        if !mine.is_empty() {
            return Err((SIG_VERIFY, format!("{mine:?}")));
        }
        stats.other_verify = other.into_iter().map(|e| e.split('(').next().unwrap_or("").to_string()).collect();
        Ok(stats)
    }

    fn who(entries: &[E], id: u64) -> String {
        entries
            .iter()
            .find(|e| e.get_id() == id)
            .map(|e| format!("{} {:?} {:?}", e.get_uuid(), dump::status_of(e), dump::proto_values(e, Attribute::Name)))
            .unwrap_or_else(|| "no stored entry has this id".into())
    }

    fn first_diff(have: &BTreeMap<String, String>, want: &BTreeMap<String, String>) -> String {
        let keys: BTreeSet<&String> = have.keys().chain(want.keys()).collect();
        for k in keys {
            if have.get(k) != want.get(k) {
                return format!("{k}: table has {:?}, from the entries {:?}", have.get(k), want.get(k));
            }
        }
        String::new()
    }

    /// Canonical text of every index table and name table (for the reindex metamorphic check).
    pub fn tables_fingerprint(r: &mut QueryServerReadTransaction<'_>) -> Result<BTreeMap<String, BTreeMap<String, String>>, String> {
        let meta: Vec<Key> = hk::be::idxmeta_keys(r.get_be_txn());
        let raw = raw_index(r, &meta)?;
        let mut out: BTreeMap<String, BTreeMap<String, String>> = BTreeMap::new();
        for (k, t) in raw.content {
            out.insert(table_name(&k), t.into_iter().map(|(key, ids)| (key, format!("{ids:?}"))).collect());
        }
        let be = r.get_be_txn();
        for (t, kc, vc) in [("idx_name2uuid", "name", "uuid"), ("idx_externalid2uuid", "eid", "uuid"), ("idx_uuid2spn", "uuid", "spn"), ("idx_uuid2rdn", "uuid", "rdn")] {
            let rows = hk::be::raw_table(be, t, kc, vc).map_err(|e| format!("{e:?}"))?;
            out.insert(t.to_string(), rows.into_iter().map(|(k, v)| (k, text(&v))).collect());
        }
        Ok(out)
    }
}
