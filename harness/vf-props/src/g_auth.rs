//! Helpers of group 'auth' (see GUIDE.md).
