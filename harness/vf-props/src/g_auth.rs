//! Helpers of group 'auth' (see GUIDE.md): independent RFC 2104 / RFC 4226 / RFC 6238 reference.
use sha1::Sha1;
use sha2::{Digest, Sha256, Sha512};

#[derive(Debug, Clone, Copy, PartialEq, Eq)]
pub enum RefAlgo {
    Sha1,
    Sha256,
    Sha512,
}

impl RefAlgo {
    pub fn block(self) -> usize {
        match self {
            RefAlgo::Sha1 | RefAlgo::Sha256 => 64,
            RefAlgo::Sha512 => 128,
        }
    }
    fn hash(self, parts: &[&[u8]]) -> Vec<u8> {
        match self {
            RefAlgo::Sha1 => {
                let mut h = Sha1::new();
                parts.iter().for_each(|p| h.update(p));
                h.finalize().to_vec()
            }
            RefAlgo::Sha256 => {
                let mut h = Sha256::new();
                parts.iter().for_each(|p| h.update(p));
                h.finalize().to_vec()
            }
            RefAlgo::Sha512 => {
                let mut h = Sha512::new();
                parts.iter().for_each(|p| h.update(p));
                h.finalize().to_vec()
            }
        }
    }
}

/// RFC 2104 HMAC written out by hand over the bare hash function (keys longer than the block
/// are hashed first, shorter ones zero padded).
pub fn ref_hmac(algo: RefAlgo, key: &[u8], msg: &[u8]) -> Vec<u8> {
    let b = algo.block();
    let mut k = if key.len() > b { algo.hash(&[key]) } else { key.to_vec() };
    k.resize(b, 0);
    let ipad: Vec<u8> = k.iter().map(|x| x ^ 0x36).collect();
    let opad: Vec<u8> = k.iter().map(|x| x ^ 0x5c).collect();
    let inner = algo.hash(&[&ipad, msg]);
    algo.hash(&[&opad, &inner])
}

/// RFC 4226 HOTP value (dynamic truncation), `digits` decimal digits.
pub fn ref_hotp(algo: RefAlgo, key: &[u8], counter: u64, digits: u32) -> u32 {
    let mac = ref_hmac(algo, key, &counter.to_be_bytes());
    let off = (mac[mac.len() - 1] & 0x0f) as usize;
    let bin = ((mac[off] as u32 & 0x7f) << 24)
        | ((mac[off + 1] as u32) << 16)
        | ((mac[off + 2] as u32) << 8)
        | (mac[off + 3] as u32);
    bin % 10u32.pow(digits)
}

/// RFC 6238: counter of the time step containing `secs`.
pub fn ref_counter(secs: u64, step: u64) -> u64 {
    secs / step
}

/// Self-test of the reference against RFC 6238 appendix B, RFC 4226 appendix D and vectors
/// produced with Python's hmac/hashlib (including keys longer than the block). Err = harness broken.
pub fn ref_selftest() -> Result<usize, String> {
    let mut n = 0;
    // RFC 4226 appendix D (SHA1, 6 digits, key "12345678901234567890")
    let k20 = b"12345678901234567890";
    let d: [u32; 10] = [755224, 287082, 359152, 969429, 338314, 254676, 287922, 162583, 399871, 520489];
    for (c, want) in d.iter().enumerate() {
        let got = ref_hotp(RefAlgo::Sha1, k20, c as u64, 6);
        if got != *want {
            return Err(format!("RFC4226 vector {c}: got {got} want {want}"));
        }
        n += 1;
    }
    // RFC 6238 appendix B (8 digits, step 30)
    let k32 = b"12345678901234567890123456789012";
    let k64 = b"1234567890123456789012345678901234567890123456789012345678901234";
    let times: [u64; 6] = [59, 1111111109, 1111111111, 1234567890, 2000000000, 20000000000];
    let s1: [u32; 6] = [94287082, 7081804, 14050471, 89005924, 69279037, 65353130];
    let s256: [u32; 6] = [46119246, 68084774, 67062674, 91819424, 90698825, 77737706];
    let s512: [u32; 6] = [90693936, 25091201, 99943326, 93441116, 38618901, 47863826];
    for i in 0..6 {
        let c = ref_counter(times[i], 30);
        for (algo, key, want) in [
            (RefAlgo::Sha1, &k20[..], s1[i]),
            (RefAlgo::Sha256, &k32[..], s256[i]),
            (RefAlgo::Sha512, &k64[..], s512[i]),
        ] {
            let got = ref_hotp(algo, key, c, 8);
            if got != want {
                return Err(format!("RFC6238 vector t={} {algo:?}: got {got} want {want}", times[i]));
            }
            n += 1;
        }
    }
    for line in include_str!("../data/hotp_vectors.txt").lines() {
        if line.starts_with('#') || line.trim().is_empty() {
            continue;
        }
        let f: Vec<&str> = line.split_whitespace().collect();
        let algo = match f[0] {
            "1" => RefAlgo::Sha1,
            "256" => RefAlgo::Sha256,
            _ => RefAlgo::Sha512,
        };
        let klen: usize = f[1].parse().map_err(|_| "bad vector".to_string())?;
        let c: u64 = f[2].parse().map_err(|_| "bad vector".to_string())?;
        let want: u32 = f[3].parse().map_err(|_| "bad vector".to_string())?;
        let key: Vec<u8> = (0..klen).map(|i| ((i * 7 + 3) & 0xff) as u8).collect();
        let got = ref_hotp(algo, &key, c, 8);
        if got != want {
            return Err(format!("python vector {line}: got {got}"));
        }
        n += 1;
    }
    Ok(n)
}

// =====================================================================================
// World helpers shared by the authentication checks: a real IdmServer with persons whose
// secrets the harness chose, and one-call drivers for the authentication paths.
// =====================================================================================
use crate::{pop, srv};
use kanidm_proto::v1::AuthMech;
use kanidmd_lib::credential::totp::{Totp, TotpAlgo, TotpDigits};
use kanidmd_lib::idm::authentication::{AuthCredential, AuthState, AuthStep, ClientAuthInfo};
use kanidmd_lib::idm::delayed::DelayedAction;
use kanidmd_lib::idm::event::{AuthEvent, AuthResult, LdapAuthEvent, UnixUserAuthEvent};
use kanidmd_lib::idm::server::{IdmServer, IdmServerAudit, IdmServerDelayed, IdmServerProxyWriteTransaction};
use kanidmd_lib::prelude::*;
use kanidmd_lib::server::identity::Source;
use kanidmd_lib::value::Value;
use kanidmd_lib::verif_hooks::auth::cred as credhook;
use kanidmd_lib::verif_hooks::ident;
use std::time::Duration;
use time::OffsetDateTime;

pub struct World {
    pub idms: IdmServer,
    pub delayed: IdmServerDelayed,
    pub audit: IdmServerAudit,
}

#[derive(Debug, Clone, Default)]
pub struct PersonSpec {
    pub idx: u32,
    pub password: Option<String>,
    /// store the password as a "generated" (service style) password credential
    pub generated: bool,
    /// (secret, step) — SHA256, six digits
    pub totp: Option<(Vec<u8>, u64)>,
    pub backup_codes: Vec<String>,
    pub posix: bool,
    pub unix_password: Option<String>,
    /// absolute seconds since the unix epoch
    pub valid_from: Option<u64>,
    pub expire: Option<u64>,
}

pub fn person_name(idx: u32) -> String {
    format!("vperson{idx}")
}

pub fn uuid_filter(u: Uuid) -> Filter<FilterInvalid> {
    Filter::new(f_eq(Attribute::Uuid, PartialValue::Uuid(u)))
}

/// A credential step, clonable and serialisable (the server's `AuthCredential` is neither).
#[derive(Debug, Clone, PartialEq, serde::Serialize, serde::Deserialize)]
pub enum Cred {
    Anonymous,
    Password(String),
    Totp(u32),
    Backup(String),
}

impl Cred {
    pub fn real(&self) -> AuthCredential {
        match self {
            Cred::Anonymous => AuthCredential::Anonymous,
            Cred::Password(p) => AuthCredential::Password(p.clone()),
            Cred::Totp(c) => AuthCredential::Totp(*c),
            Cred::Backup(c) => AuthCredential::BackupCode(c.clone()),
        }
    }
}

/// Outcome of one complete web authentication attempt.
#[derive(Debug, Clone, PartialEq)]
pub enum Attempt {
    Success,
    Denied(String),
    /// still waiting for more factors after all supplied credentials
    Incomplete,
    Error(String),
}

impl World {
    pub async fn new() -> World {
        let qs = srv::new_qs().await;
        let (idms, delayed, audit) = srv::new_idms(qs).await;
        World { idms, delayed, audit }
    }

    /// Run `f` in a write transaction at `ct`; commit when it returns Ok.
    pub async fn write<R>(
        &self,
        ct: Duration,
        f: impl FnOnce(&mut IdmServerProxyWriteTransaction<'_>) -> Result<R, OperationError>,
    ) -> Result<R, OperationError> {
        let mut w = self.idms.proxy_write(ct).await?;
        let r = f(&mut w)?;
        w.commit()?;
        Ok(r)
    }

    pub async fn create_person(&self, ct: Duration, spec: &PersonSpec) -> Result<(), OperationError> {
        self.write(ct, |w| create_person(w, spec)).await
    }

    /// One raw authentication step.
    pub async fn auth_step(&self, sid: Option<Uuid>, step: AuthStep, ct: Duration) -> Result<AuthResult, OperationError> {
        let ae = AuthEvent::from_message(sid, step)?;
        let mut a = self.idms.auth().await?;
        let r = a.auth(&ae, ct, ClientAuthInfo::new(Source::Internal, None, None, None)).await;
        a.commit()?;
        r
    }

    /// Init -> Begin(mech) -> creds in order. All steps at `ct`.
    pub async fn web_attempt(&self, name: &str, mech: AuthMech, creds: &[Cred], ct: Duration) -> Attempt {
        let r = match self.auth_step(None, AuthStep::Init(name.to_string()), ct).await {
            Ok(r) => r,
            Err(e) => return Attempt::Error(format!("init: {e:?}")),
        };
        let sid = r.sessionid;
        match r.state {
            AuthState::Choose(_) => {}
            AuthState::Denied(m) => return Attempt::Denied(m),
            s => return Attempt::Error(format!("init: unexpected {s:?}")),
        }
        let r = match self.auth_step(Some(sid), AuthStep::Begin(mech), ct).await {
            Ok(r) => r,
            Err(e) => return Attempt::Error(format!("begin: {e:?}")),
        };
        match r.state {
            AuthState::Continue(_) => {}
            AuthState::Denied(m) => return Attempt::Denied(m),
            s => return Attempt::Error(format!("begin: unexpected {s:?}")),
        }
        for c in creds {
            let r = match self.auth_step(Some(sid), AuthStep::Cred(c.real()), ct).await {
                Ok(r) => r,
                Err(e) => return Attempt::Error(format!("cred: {e:?}")),
            };
            match r.state {
                AuthState::Continue(_) => {}
                AuthState::Denied(m) => return Attempt::Denied(m),
                AuthState::Success(..) => return Attempt::Success,
                s => return Attempt::Error(format!("cred: unexpected {s:?}")),
            }
        }
        Attempt::Incomplete
    }

    /// POSIX password authentication (`auth_unix`). Ok(true) = token issued.
    pub async fn unix_attempt(&self, target: Uuid, pw: &str, ct: Duration) -> Result<bool, OperationError> {
        let ev = UnixUserAuthEvent::from_parts(ident::internal(), target, pw.to_string())?;
        let mut a = self.idms.auth().await?;
        let r = a.auth_unix(&ev, ct).await;
        a.commit()?;
        r.map(|t| t.is_some())
    }

    /// LDAP simple bind (`auth_ldap`). Ok(true) = bound.
    pub async fn ldap_attempt(&self, target: Uuid, pw: &str, ct: Duration) -> Result<bool, OperationError> {
        let ev = LdapAuthEvent::from_parts(target, pw.to_string())?;
        let mut a = self.idms.auth().await?;
        let r = a.auth_ldap(&ev, ct).await;
        a.commit()?;
        r.map(|t| t.is_some())
    }

    /// Take every queued delayed action; apply them (in order) when `process`.
    pub async fn drain_delayed(&mut self, ct: Duration, process: bool) -> Vec<String> {
        let mut out = Vec::new();
        loop {
            let mut buf: Vec<DelayedAction> = Vec::with_capacity(16);
            let n = tokio::select! {
                biased;
                n = self.delayed.recv_many(&mut buf) => n,
                _ = std::future::ready(()) => 0,
            };
            if n == 0 {
                break;
            }
            for da in buf {
                out.push(format!("{da:?}").chars().take(60).collect());
                if process {
                    if let Ok(mut w) = self.idms.proxy_write(ct).await {
                        if w.process_delayedaction(&da, ct).is_ok() {
                            let _ = w.commit();
                        }
                    }
                }
            }
        }
        out
    }
}

pub fn totp_of(secret: &[u8], step: u64) -> Totp {
    Totp::new(secret.to_vec(), step, TotpAlgo::Sha256, TotpDigits::Six)
}

/// Reference TOTP code (SHA256, six digits) for the step `back` steps before the one containing `ct`.
pub fn ref_totp_code(secret: &[u8], step: u64, ct: Duration, back: u64) -> Option<u32> {
    let c = ref_counter(ct.as_secs(), step).checked_sub(back)?;
    Some(ref_hotp(RefAlgo::Sha256, secret, c, 6))
}

pub fn create_person(w: &mut IdmServerProxyWriteTransaction<'_>, spec: &PersonSpec) -> Result<(), OperationError> {
    let uuid = pop::person_uuid(spec.idx);
    let mut e = pop::person(uuid, &person_name(spec.idx));
    if spec.posix {
        e.add_ava(Attribute::Class, EntryClass::PosixAccount.to_value());
    }
    if let Some(t) = spec.valid_from {
        e.add_ava(Attribute::AccountValidFrom, Value::new_datetime_epoch(Duration::from_secs(t)));
    }
    if let Some(t) = spec.expire {
        e.add_ava(Attribute::AccountExpire, Value::new_datetime_epoch(Duration::from_secs(t)));
    }
    w.qs_write.internal_create(vec![e])?;
    let ts = OffsetDateTime::UNIX_EPOCH + srv::t0();
    let mut mods = Vec::new();
    if let Some(pw) = &spec.password {
        let mut c = if spec.generated {
            credhook::generated_password_only(pw, ts)?
        } else {
            credhook::password_only(pw, ts)?
        };
        if let Some((secret, step)) = &spec.totp {
            c = credhook::append_totp(&c, "totp", totp_of(secret, *step), ts);
            if !spec.backup_codes.is_empty() {
                c = credhook::set_backup_codes(&c, &spec.backup_codes, ts)?;
            }
        }
        mods.push(Modify::Present(Attribute::PrimaryCredential, Value::new_credential("primary", c)));
    }
    if let Some(pw) = &spec.unix_password {
        let c = credhook::password_only(pw, ts)?;
        mods.push(Modify::Present(Attribute::UnixPassword, Value::new_credential("unix", c)));
    }
    if !mods.is_empty() {
        w.qs_write.internal_modify(&uuid_filter(uuid), &ModifyList::new_list(mods))?;
    }
    Ok(())
}
