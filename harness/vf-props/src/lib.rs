//! vf-world: shared generators, server factory, canonical dumps, reference evaluators and
//! drivers used by the per-property checks (src/bin/cXX.rs).
pub mod srv;
pub mod dump;
pub mod pop;
pub mod fil;

pub use vf_core;
