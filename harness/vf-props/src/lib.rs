//! vf-world: shared generators, server factory, canonical dumps, reference evaluators and
//! drivers used by the per-property checks (src/bin/cXX.rs).
pub mod dump;
pub mod fil;
pub mod hist;
pub mod inv;
pub mod ops;
pub mod pop;
pub mod repl;
pub mod srv;

// per-group helper modules (owned by the group that builds those properties)
pub mod g_access;
pub mod g_auth;
pub mod g_fault;
pub mod g_integrity;
pub mod g_proto;
pub mod g_replx;
pub mod g_session;
pub mod g_storage;
pub mod g_unix;

pub use vf_core;
