//! Replication driver: N in-process replicas, incremental replication, refresh, quiescence.
use crate::dump::{self, Dump};
use crate::ops::{self, Node, Op, Step};
use kanidmd_lib::prelude::*;
use kanidmd_lib::repl::proto::{ConsumerState, ReplCidRange, ReplIncrementalContext};
use kanidmd_lib::verif_hooks::repl as hrepl;
use std::collections::BTreeMap;

#[derive(Debug, Clone, PartialEq, Eq)]
pub enum ReplResult {
    /// a V1 change set was supplied and applied
    Applied,
    NoChanges,
    RefreshRequired,
    Unwilling,
    DomainMismatch,
    /// the consumer failed to apply (returned Err); the consumer txn was dropped
    ConsumerError(String),
    SupplierError(String),
}

pub struct Cluster {
    pub nodes: Vec<Node>,
}

impl Cluster {
    /// Node 0 is initialised normally; every other node is refreshed from node 0 (as repl tests do).
    pub async fn new(n: usize) -> Cluster {
        let mut nodes = Vec::new();
        for _ in 0..n {
            nodes.push(Node::new().await);
        }
        let mut c = Cluster { nodes };
        for i in 1..n {
            c.refresh(0, i).await.expect("initial refresh");
        }
        c
    }

    pub async fn refresh(&mut self, from: usize, to: usize) -> Result<(), OperationError> {
        let ctx = {
            let mut r = self.nodes[from].qs.read().await?;
            r.supplier_provide_refresh()?
        };
        let now = self.nodes[to].now();
        let mut w = self.nodes[to].qs.write(now).await?;
        w.consumer_apply_refresh(ctx)?;
        w.commit()?;
        self.nodes[to].clock += 1;
        Ok(())
    }

    /// One incremental replication from -> to.
    pub async fn replicate(&mut self, from: usize, to: usize) -> ReplResult {
        let now = self.nodes[to].now();
        // consumer state (needs a txn on the consumer)
        let state = {
            let mut r = match self.nodes[to].qs.read().await {
                Ok(r) => r,
                Err(e) => return ReplResult::ConsumerError(format!("{e:?}")),
            };
            match r.consumer_get_state() {
                Ok(s) => s,
                Err(e) => return ReplResult::ConsumerError(format!("get_state {e:?}")),
            }
        };
        let changes = {
            let mut r = match self.nodes[from].qs.read().await {
                Ok(r) => r,
                Err(e) => return ReplResult::SupplierError(format!("{e:?}")),
            };
            match r.supplier_provide_changes(state) {
                Ok(c) => c,
                Err(e) => return ReplResult::SupplierError(format!("{e:?}")),
            }
        };
        let kind = match &changes {
            ReplIncrementalContext::DomainMismatch => ReplResult::DomainMismatch,
            ReplIncrementalContext::NoChangesAvailable => ReplResult::NoChanges,
            ReplIncrementalContext::RefreshRequired => ReplResult::RefreshRequired,
            ReplIncrementalContext::UnwillingToSupply => ReplResult::Unwilling,
            ReplIncrementalContext::V1 { .. } => ReplResult::Applied,
        };
        let mut w = match self.nodes[to].qs.write(now).await {
            Ok(w) => w,
            Err(e) => return ReplResult::ConsumerError(format!("{e:?}")),
        };
        match w.consumer_apply_changes(changes) {
            Ok(ConsumerState::Ok) => {}
            Ok(ConsumerState::RefreshRequired) => {
                if kind == ReplResult::Applied {
                    return ReplResult::RefreshRequired;
                }
            }
            Err(e) => return ReplResult::ConsumerError(format!("apply {e:?}")),
        }
        if let Err(e) = w.commit() {
            return ReplResult::ConsumerError(format!("commit {e:?}"));
        }
        self.nodes[to].clock += 1;
        kind
    }

    pub async fn ruv(&self, i: usize) -> BTreeMap<Uuid, (Duration, Duration)> {
        let mut r = self.nodes[i].qs.read().await.expect("read");
        hrepl::current_ruv_range(&mut r)
            .unwrap_or_default()
            .into_iter()
            .map(|(k, ReplCidRange { ts_min, ts_max })| (k, (ts_min, ts_max)))
            .collect()
    }

    pub async fn dump(&self, i: usize) -> Dump {
        let mut r = self.nodes[i].qs.read().await.expect("read");
        dump::dump_all(&mut r).expect("dump")
    }

    /// Full mesh rounds until no replication step applies changes. Returns (quiesced, results seen).
    /// A consumer told to refresh is refreshed from the supplier that said so.
    pub async fn quiesce(&mut self, max_rounds: usize, auto_refresh: bool) -> (bool, Vec<ReplResult>) {
        let n = self.nodes.len();
        let mut seen = Vec::new();
        for _ in 0..max_rounds {
            let mut changed = false;
            for from in 0..n {
                for to in 0..n {
                    if from == to {
                        continue;
                    }
                    let r = self.replicate(from, to).await;
                    match &r {
                        ReplResult::Applied => changed = true,
                        ReplResult::RefreshRequired | ReplResult::DomainMismatch if auto_refresh => {
                            if self.refresh(from, to).await.is_ok() {
                                changed = true;
                            }
                        }
                        _ => {}
                    }
                    seen.push(r);
                }
            }
            if !changed {
                return (true, seen);
            }
        }
        (false, seen)
    }

    /// Interpret one step. Returns a short label of what happened.
    pub async fn step(&mut self, s: &Step) -> StepResult {
        let n = self.nodes.len();
        match s {
            Step::Do { r, op } => {
                let i = *r as usize % n;
                StepResult::Op(ops::apply(&mut self.nodes[i], op).await)
            }
            Step::Repl { from, to } => {
                let (f, t) = (*from as usize % n, *to as usize % n);
                if f == t {
                    return StepResult::Skipped;
                }
                StepResult::Repl(self.replicate(f, t).await)
            }
            Step::Refresh { from, to } => {
                let (f, t) = (*from as usize % n, *to as usize % n);
                if f == t {
                    return StepResult::Skipped;
                }
                StepResult::Refresh(self.refresh(f, t).await)
            }
        }
    }
}

#[derive(Debug)]
pub enum StepResult {
    Op(Result<(), OperationError>),
    Repl(ReplResult),
    Refresh(Result<(), OperationError>),
    Skipped,
}

pub fn is_write(op: &Op) -> bool {
    !matches!(op, Op::Advance { .. })
}
