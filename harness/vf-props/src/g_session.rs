//! Group 'session' helpers (C32, C33, C34, C36, C49): a real `IdmServer` world with a
//! harness-owned clock, account builders, login / token / delayed-action drivers.
//!
//! Everything here only *drives* the server. Oracles live in the checks.
use crate::srv::{self, ct};
use kanidm_lib_crypto::CryptoPolicy;
use kanidmd_lib::constants::*;
use kanidmd_lib::credential::Credential;
use kanidmd_lib::idm::authentication::{AuthCredential, AuthExternal, AuthState, ReauthRequest};
use kanidmd_lib::idm::delayed::DelayedAction;
use kanidmd_lib::idm::event::{AuthEvent, AuthEventStep, AuthEventStepCred, AuthEventStepInit, AuthEventStepMech, AuthResult};
use kanidmd_lib::idm::server::{IdmServerProxyWriteTransaction, IdmServerTransaction};
use kanidmd_lib::idm::serviceaccount::{DestroyApiTokenEvent, GenerateApiTokenEvent};
use kanidmd_lib::modify::{Modify, ModifyList};
use kanidmd_lib::entry::EntrySealedCommitted;
use kanidmd_lib::prelude::*;
use kanidmd_lib::value::Value;
use kanidmd_lib::verif_hooks::ident;
use kanidmd_lib::verif_hooks::session as hk;
use kanidm_proto::v1::{AuthAllowed, AuthIssueSession, AuthMech};
use std::str::FromStr;
use std::sync::Arc;
use time::OffsetDateTime;

pub use hk::compact_jwt::JwsCompact;

pub const PW: &str = "verif-primary-pw-9fQ";
pub const PW2: &str = "verif-second-pw-3kZ";
pub const UNIX_PW: &str = "verif-unix-pw-71xB";
pub const TOTP_SECRET: [u8; 20] = *b"verif-totp-secret-00";
pub const TOTP_STEP: u64 = 30;

pub fn odt(off: u64) -> OffsetDateTime {
    OffsetDateTime::UNIX_EPOCH + ct(off)
}

pub struct World {
    pub idms: IdmServer,
    pub delayed: IdmServerDelayed,
    pub audit: IdmServerAudit,
}

#[derive(Debug, Clone, PartialEq, Eq)]
pub enum Login {
    /// the issued bearer token (JWS compact string)
    Success(String),
    Denied(String),
    /// the flow could not proceed (no such mech, server error)
    Error(String),
}
impl Login {
    pub fn token(&self) -> Option<&str> {
        match self {
            Login::Success(t) => Some(t),
            _ => None,
        }
    }
}

pub fn uuid_filter(u: Uuid) -> Filter<FilterInvalid> {
    Filter::new_ignore_hidden(f_eq(Attribute::Uuid, PartialValue::Uuid(u)))
}

pub fn parse_jws(s: &str) -> Option<JwsCompact> {
    JwsCompact::from_str(s).ok()
}

#[derive(Debug, Clone, Copy, PartialEq, Eq)]
pub enum Mech {
    Password,
    PasswordTotp,
    Anonymous,
}

impl World {
    pub async fn new() -> World {
        let qs = srv::new_qs().await;
        let (idms, delayed, audit) = srv::new_idms(qs).await;
        World { idms, delayed, audit }
    }

    /// Run `f` in one IDM write transaction at virtual time `off`; commit when it returns Ok.
    pub async fn write<R>(
        &self,
        off: u64,
        f: impl for<'a, 'b> FnOnce(&'a mut IdmServerProxyWriteTransaction<'b>) -> Result<R, OperationError>,
    ) -> Result<R, OperationError> {
        let mut w = self.idms.proxy_write(ct(off)).await?;
        let r = f(&mut w)?;
        w.commit()?;
        Ok(r)
    }

    pub async fn entry(&self, u: Uuid) -> Result<Arc<EntrySealedCommitted>, OperationError> {
        let mut r = self.idms.proxy_read().await?;
        r.qs_read.internal_search_uuid(u)
    }

    pub async fn modify(&self, off: u64, u: Uuid, mods: Vec<Modify>) -> Result<(), OperationError> {
        self.write(off, |w| w.qs_write.internal_modify(&uuid_filter(u), &ModifyList::new_list(mods)))
            .await
    }

    /// Person with an optional primary password credential. Returns the credential id.
    pub async fn create_person(&self, off: u64, uuid: Uuid, name: &str, mech: Option<Mech>, pw: &str) -> Result<Option<Uuid>, OperationError> {
        let e = crate::pop::person(uuid, name);
        let cred = match mech {
            None => None,
            Some(Mech::Password) => Some(Credential::new_password_only(&CryptoPolicy::danger_test_minimum(), pw, odt(off))?),
            Some(Mech::Anonymous) => None,
            Some(Mech::PasswordTotp) => Some(hk::credential_password_totp(
                &CryptoPolicy::danger_test_minimum(),
                pw,
                TOTP_SECRET.to_vec(),
                TOTP_STEP,
                odt(off),
            )?),
        };
        let cid = cred.as_ref().map(hk::credential_uuid);
        self.write(off, move |w| {
            w.qs_write.internal_create(vec![e])?;
            if let Some(c) = cred {
                w.qs_write.internal_modify(
                    &uuid_filter(uuid),
                    &ModifyList::new_list(vec![Modify::Present(Attribute::PrimaryCredential, Value::new_credential("primary", c))]),
                )?;
            }
            Ok(())
        })
        .await?;
        Ok(cid)
    }

    /// Replace the primary credential by a fresh password credential; returns the new cred id.
    pub async fn set_primary_password(&self, off: u64, uuid: Uuid, pw: &str) -> Result<Uuid, OperationError> {
        let c = Credential::new_password_only(&CryptoPolicy::danger_test_minimum(), pw, odt(off))?;
        let id = hk::credential_uuid(&c);
        self.modify(
            off,
            uuid,
            vec![
                Modify::Purged(Attribute::PrimaryCredential),
                Modify::Present(Attribute::PrimaryCredential, Value::new_credential("primary", c)),
            ],
        )
        .await?;
        Ok(id)
    }

    pub async fn create_service(&self, off: u64, uuid: Uuid, name: &str) -> Result<(), OperationError> {
        let e = crate::pop::service(uuid, name);
        self.write(off, move |w| w.qs_write.internal_create(vec![e])).await
    }

    pub async fn add_member(&self, off: u64, group: Uuid, member: Uuid) -> Result<(), OperationError> {
        self.modify(off, group, vec![Modify::Present(Attribute::Member, Value::Refer(member))]).await
    }

    /// Make the account POSIX with a unix password.
    pub async fn enable_posix(&self, off: u64, uuid: Uuid, gid: u32, unix_pw: &str) -> Result<(), OperationError> {
        let c = Credential::new_password_only(&CryptoPolicy::danger_test_minimum(), unix_pw, odt(off))?;
        self.modify(
            off,
            uuid,
            vec![
                Modify::Present(Attribute::Class, EntryClass::PosixAccount.into()),
                Modify::Present(Attribute::GidNumber, Value::new_uint32(gid)),
                Modify::Present(Attribute::UnixPassword, Value::new_credential("unix", c)),
            ],
        )
        .await
    }

    /// Set / clear the validity window (seconds after the world epoch).
    pub async fn set_window(&self, off: u64, uuid: Uuid, valid_from: Option<u64>, expire: Option<u64>) -> Result<(), OperationError> {
        let mut mods = vec![Modify::Purged(Attribute::AccountValidFrom), Modify::Purged(Attribute::AccountExpire)];
        if let Some(v) = valid_from {
            mods.push(Modify::Present(Attribute::AccountValidFrom, Value::new_datetime_epoch(ct(v))));
        }
        if let Some(v) = expire {
            mods.push(Modify::Present(Attribute::AccountExpire, Value::new_datetime_epoch(ct(v))));
        }
        self.modify(off, uuid, mods).await
    }

    /// One interactive login, all steps at the same virtual instant.
    pub async fn login(&self, name: &str, mech: Mech, pw: &str, privileged: bool, off: u64) -> Login {
        let now = ct(off);
        let mut a = match self.idms.auth().await {
            Ok(a) => a,
            Err(e) => return Login::Error(format!("auth txn {e:?}")),
        };
        let init = AuthEvent {
            ident: None,
            step: AuthEventStep::Init(AuthEventStepInit {
                username: name.to_string(),
                issue: AuthIssueSession::Token,
                privileged,
            }),
        };
        let AuthResult { sessionid, state } = match a.auth(&init, now, hk::client_auth_none()).await {
            Ok(r) => r,
            Err(e) => return Login::Error(format!("init {e:?}")),
        };
        match state {
            AuthState::Choose(_) => {}
            AuthState::Denied(r) => return Login::Denied(r),
            s => return Login::Error(format!("init -> {s:?}")),
        }
        let m = match mech {
            Mech::Password => AuthMech::Password,
            Mech::PasswordTotp => AuthMech::PasswordTotp,
            Mech::Anonymous => AuthMech::Anonymous,
        };
        let begin = AuthEvent {
            ident: None,
            step: AuthEventStep::Begin(AuthEventStepMech { sessionid, mech: m }),
        };
        let state = match a.auth(&begin, now, hk::client_auth_none()).await {
            Ok(r) => r.state,
            Err(e) => return Login::Error(format!("begin {e:?}")),
        };
        let r = self.finish_creds(&mut a, sessionid, state, pw, off).await;
        let _ = a.commit();
        r
    }

    async fn finish_creds(
        &self,
        a: &mut kanidmd_lib::idm::server::IdmServerAuthTransaction<'_>,
        sessionid: Uuid,
        mut state: AuthState,
        pw: &str,
        off: u64,
    ) -> Login {
        let now = ct(off);
        for _ in 0..3 {
            let cred = match &state {
                AuthState::Continue(allowed) => {
                    if allowed.iter().any(|x| matches!(x, AuthAllowed::Totp)) {
                        let totp = kanidmd_lib::credential::totp::Totp::new(
                            TOTP_SECRET.to_vec(),
                            TOTP_STEP,
                            kanidmd_lib::credential::totp::TotpAlgo::Sha256,
                            kanidmd_lib::credential::totp::TotpDigits::Six,
                        );
                        match totp.do_totp_duration_from_epoch(&now) {
                            Ok(c) => AuthCredential::Totp(c),
                            Err(e) => return Login::Error(format!("totp {e:?}")),
                        }
                    } else if allowed.iter().any(|x| matches!(x, AuthAllowed::Anonymous)) {
                        AuthCredential::Anonymous
                    } else if allowed.iter().any(|x| matches!(x, AuthAllowed::Password)) {
                        AuthCredential::Password(pw.to_string())
                    } else {
                        return Login::Error(format!("unsupported continue {allowed:?}"));
                    }
                }
                AuthState::Denied(r) => return Login::Denied(r.clone()),
                AuthState::Success(t, _) => return Login::Success(t.to_string()),
                s => return Login::Error(format!("unexpected state {s:?}")),
            };
            let ev = AuthEvent {
                ident: None,
                step: AuthEventStep::Cred(AuthEventStepCred { sessionid, cred }),
            };
            state = match a.auth(&ev, now, hk::client_auth_none()).await {
                Ok(r) => r.state,
                Err(e) => return Login::Error(format!("cred {e:?}")),
            };
        }
        match state {
            AuthState::Denied(r) => Login::Denied(r),
            AuthState::Success(t, _) => Login::Success(t.to_string()),
            s => Login::Error(format!("unfinished {s:?}")),
        }
    }

    /// An upstream OAuth2 provider entry (class oauth2_client) and a person whose only credential is
    /// the trust to that provider (class oauth2_account). `sub` is the subject the provider knows.
    pub async fn create_oauth2_trust_person(&self, off: u64, provider: Uuid, person: Uuid, name: &str, sub: &str, cred_id: Uuid) -> Result<(), OperationError> {
        let mut p: crate::pop::NewEntry = kanidmd_lib::entry::Entry::new();
        p.add_ava(Attribute::Class, EntryClass::Object.to_value());
        p.add_ava(Attribute::Class, EntryClass::OAuth2Client.to_value());
        p.add_ava(Attribute::Uuid, Value::Uuid(provider));
        p.add_ava(Attribute::Name, Value::new_iname("vupstream"));
        p.add_ava(Attribute::OAuth2ClientId, Value::new_utf8s("vclient"));
        p.add_ava(Attribute::OAuth2ClientSecret, Value::new_utf8s("vclient-secret"));
        p.add_ava(Attribute::OAuth2AuthorisationEndpoint, Value::new_url_s("https://upstream.example.org/oauth2/authorise").expect("url"));
        p.add_ava(Attribute::OAuth2TokenEndpoint, Value::new_url_s("https://upstream.example.org/oauth2/token").expect("url"));
        p.add_ava(Attribute::OAuth2TokenIntrospectEndpoint, Value::new_url_s("https://upstream.example.org/oauth2/introspect").expect("url"));
        p.add_ava(Attribute::OAuth2RequestScopes, Value::new_oauthscope("openid").expect("scope"));
        let mut e = crate::pop::person(person, name);
        e.add_ava(Attribute::Class, EntryClass::OAuth2Account.to_value());
        e.add_ava(Attribute::OAuth2AccountProvider, Value::Refer(provider));
        e.add_ava(Attribute::OAuth2AccountUniqueUserId, Value::new_utf8s(name));
        e.add_ava(Attribute::OAuth2AccountUniqueUserSub, Value::new_utf8s(sub));
        e.add_ava(Attribute::OAuth2AccountCredentialUuid, Value::Uuid(cred_id));
        self.write(off, move |w| w.qs_write.internal_create(vec![p])).await?;
        self.write(off + 1, move |w| w.qs_write.internal_create(vec![e])).await
    }

    /// One OAuth2-trust login through the real auth state machine; the harness plays the upstream
    /// provider (authorisation code, access token, RFC 7662 introspection answering `sub`).
    pub async fn login_oauth2_trust(&self, name: &str, sub: &str, privileged: bool, off: u64) -> Login {
        use kanidm_proto::oauth2::{AccessTokenIntrospectResponse, AccessTokenResponse, AccessTokenType, IssuedTokenType};
        let now = ct(off);
        let mut a = match self.idms.auth().await {
            Ok(a) => a,
            Err(e) => return Login::Error(format!("auth txn {e:?}")),
        };
        let init = AuthEvent {
            ident: None,
            step: AuthEventStep::Init(AuthEventStepInit {
                username: name.to_string(),
                issue: AuthIssueSession::Token,
                privileged,
            }),
        };
        let AuthResult { sessionid, state } = match a.auth(&init, now, hk::client_auth_none()).await {
            Ok(r) => r,
            Err(e) => return Login::Error(format!("init {e:?}")),
        };
        match state {
            AuthState::Choose(m) if m.iter().any(|x| matches!(x, AuthMech::OAuth2Trust)) => {}
            AuthState::Denied(r) => return Login::Denied(r),
            s => return Login::Error(format!("init -> {s:?}")),
        }
        let begin = AuthEvent {
            ident: None,
            step: AuthEventStep::Begin(AuthEventStepMech { sessionid, mech: AuthMech::OAuth2Trust }),
        };
        let mut state = match a.auth(&begin, now, hk::client_auth_none()).await {
            Ok(r) => r.state,
            Err(e) => return Login::Error(format!("begin {e:?}")),
        };
        for _ in 0..4 {
            let cred = match state {
                AuthState::External(AuthExternal::OAuth2AuthorisationRequest { request, .. }) => AuthCredential::OAuth2AuthorisationResponse {
                    code: "verif-code".to_string(),
                    state: request.state.clone(),
                },
                AuthState::External(AuthExternal::OAuth2AccessTokenRequest { .. }) => AuthCredential::OAuth2AccessTokenResponse {
                    response: AccessTokenResponse {
                        access_token: "verif-access-token".to_string(),
                        token_type: AccessTokenType::Bearer,
                        issued_token_type: Some(IssuedTokenType::AccessToken),
                        expires_in: 300,
                        refresh_token: Some("verif-refresh-token".to_string()),
                        scope: ["openid".to_string()].into_iter().collect(),
                        id_token: None,
                    },
                },
                AuthState::External(AuthExternal::OAuth2AccessTokenIntrospectionRequest { .. }) => AuthCredential::OAuth2AccessTokenIntrospectResponse {
                    response: AccessTokenIntrospectResponse {
                        active: true,
                        sub: Some(sub.to_string()),
                        ..Default::default()
                    },
                },
                AuthState::Denied(r) => return Login::Denied(r),
                AuthState::Success(t, _) => {
                    let _ = a.commit();
                    return Login::Success(t.to_string());
                }
                s => return Login::Error(format!("unexpected state {s:?}")),
            };
            let ev = AuthEvent {
                ident: None,
                step: AuthEventStep::Cred(AuthEventStepCred { sessionid, cred }),
            };
            state = match a.auth(&ev, now, hk::client_auth_none()).await {
                Ok(r) => r.state,
                Err(e) => return Login::Error(format!("cred {e:?}")),
            };
        }
        Login::Error("oauth2 trust flow did not finish".into())
    }

    /// Re-authentication of the session behind `ident` (all steps at `off`).
    pub async fn reauth(&self, ident: Identity, pw: &str, grant_rw: bool, off: u64) -> Login {
        let now = ct(off);
        let mut a = match self.idms.auth().await {
            Ok(a) => a,
            Err(e) => return Login::Error(format!("auth txn {e:?}")),
        };
        let req = if grant_rw { ReauthRequest::GrantReadWrite } else { ReauthRequest::VerifyCredentials };
        let AuthResult { sessionid, state } = match a.reauth_init(ident, AuthIssueSession::Token, now, hk::client_auth_none(), req).await {
            Ok(r) => r,
            Err(e) => return Login::Error(format!("reauth_init {e:?}")),
        };
        let r = self.finish_creds(&mut a, sessionid, state, pw, off).await;
        let _ = a.commit();
        r
    }

    /// Process queued delayed actions (session records, upgrades) at `off`. Returns how many.
    pub async fn process_delayed(&mut self, off: u64) -> usize {
        let mut n = 0;
        while let Some(da) = hk::delayed_try_recv(&mut self.delayed) {
            let _ = hk::delayed_action(&self.idms, ct(off), da).await;
            n += 1;
        }
        n
    }

    /// Drop queued delayed actions without processing them. Returns the dropped session records.
    pub fn drop_delayed(&mut self) -> Vec<DelayedAction> {
        let mut v = Vec::new();
        while let Some(da) = hk::delayed_try_recv(&mut self.delayed) {
            v.push(da);
        }
        v
    }

    /// Present a bearer token at `off` through the front-door validation.
    pub async fn token_ident(&self, token: &str, off: u64) -> Result<Identity, OperationError> {
        let Some(jws) = parse_jws(token) else {
            return Err(OperationError::NotAuthenticated);
        };
        let mut r = self.idms.proxy_read().await?;
        r.validate_client_auth_info_to_ident(hk::client_auth_bearer(jws), ct(off))
    }

    pub async fn api_token(&self, off: u64, target: Uuid, label: &str, expiry: Option<u64>, read_write: bool, compact: bool) -> Result<String, OperationError> {
        let ev = GenerateApiTokenEvent {
            ident: ident::internal(),
            target,
            label: label.to_string(),
            expiry: expiry.map(odt),
            read_write,
            compact,
        };
        self.write(off, move |w| w.service_account_generate_api_token(&ev, ct(off)))
            .await
            .map(|t| t.to_string())
    }

    pub async fn destroy_api_token(&self, off: u64, target: Uuid, token_id: Uuid) -> Result<(), OperationError> {
        let ev = DestroyApiTokenEvent {
            ident: ident::internal(),
            target,
            token_id,
        };
        self.write(off, move |w| w.service_account_destroy_api_token(&ev)).await
    }

    /// Identity of a stored account as the server would build it for a read-only request.
    pub async fn ident_of(&self, u: Uuid) -> Result<Identity, OperationError> {
        Ok(ident::user_readonly(self.entry(u).await?))
    }
}

// ---------------------------------------------------------------------------------------------
// Token inspection without the server: split the compact form, decode base64url, read the JSON.

pub fn b64url_decode(s: &str) -> Option<Vec<u8>> {
    let mut out = Vec::with_capacity(s.len() * 3 / 4);
    let mut acc: u32 = 0;
    let mut bits = 0;
    for c in s.bytes() {
        let v = match c {
            b'A'..=b'Z' => c - b'A',
            b'a'..=b'z' => c - b'a' + 26,
            b'0'..=b'9' => c - b'0' + 52,
            b'-' => 62,
            b'_' => 63,
            b'=' => continue,
            _ => return None,
        } as u32;
        acc = (acc << 6) | v;
        bits += 6;
        if bits >= 8 {
            bits -= 8;
            out.push(((acc >> bits) & 0xff) as u8);
        }
    }
    Some(out)
}

#[derive(Debug, Clone)]
pub struct TokenParts {
    pub kid: Option<String>,
    pub alg: Option<String>,
    pub payload: Vec<u8>,
}

pub fn token_parts(tok: &str) -> Option<TokenParts> {
    let mut it = tok.split('.');
    let (h, p, _s) = (it.next()?, it.next()?, it.next()?);
    let hv: serde_json::Value = serde_json::from_slice(&b64url_decode(h)?).ok()?;
    Some(TokenParts {
        kid: hv.get("kid").and_then(|k| k.as_str()).map(|s| s.to_string()),
        alg: hv.get("alg").and_then(|k| k.as_str()).map(|s| s.to_string()),
        payload: b64url_decode(p)?,
    })
}

fn flip_mid(seg: &str) -> String {
    let mut b: Vec<u8> = seg.bytes().collect();
    if b.is_empty() {
        return "A".into();
    }
    let i = b.len() / 2;
    b[i] = if b[i] == b'A' { b'B' } else { b'A' };
    String::from_utf8(b).unwrap_or_default()
}

/// Forged variants of a compact token: none of them carries a valid signature of the original key
/// (middle characters are flipped, so no change hides in base64 padding bits).
pub fn mutants(tok: &str, other: Option<&str>) -> Vec<(&'static str, String)> {
    let parts: Vec<&str> = tok.split('.').collect();
    if parts.len() != 3 {
        return Vec::new();
    }
    let (h, p, s) = (parts[0], parts[1], parts[2]);
    let mut v = vec![
        ("signature-flip", format!("{h}.{p}.{}", flip_mid(s))),
        ("payload-flip", format!("{h}.{}.{s}", flip_mid(p))),
        ("truncated", format!("{h}.{p}.{}", &s[..s.len().saturating_sub(8)])),
        ("no-signature", format!("{h}.{p}.")),
    ];
    if let Some(o) = other {
        let op: Vec<&str> = o.split('.').collect();
        if op.len() == 3 && op[2] != s {
            v.push(("foreign-signature", format!("{h}.{p}.{}", op[2])));
        }
    }
    v
}
