//! Helpers of group 'session' (see GUIDE.md).
