//! Canonical dump of a database: every stored entry (live, recycled, tombstone, conflict) in a
//! normalised, order-independent textual form taken from the on-disk (DbEntry) encoding, so that
//! secrets and structured values are compared too.
use kanidmd_lib::entry::{Entry, EntryCommitted, EntrySealed};
use kanidmd_lib::prelude::*;
use kanidmd_lib::verif_hooks::export::State;
use serde::{Deserialize, Serialize};
use serde_json::Value as J;
use std::collections::{BTreeMap, BTreeSet};
use std::sync::Arc;

#[derive(Debug, Clone, Copy, PartialEq, Eq, PartialOrd, Ord, Serialize, Deserialize)]
pub enum Status {
    Live,
    Recycled,
    Tombstone,
    Conflict,
}

#[derive(Debug, Clone, PartialEq, Eq, Serialize, Deserialize)]
pub struct EntryDump {
    pub uuid: Uuid,
    pub id: u64,
    pub status: Status,
    /// attribute -> sorted list of values (canonical JSON text of the db encoding of each value)
    pub attrs: BTreeMap<String, Vec<String>>,
    /// creation / tombstone cid
    pub at: String,
    /// attribute -> cid of last change (empty for tombstones)
    pub changes: BTreeMap<String, String>,
}

pub type Dump = BTreeMap<Uuid, EntryDump>;

fn norm_values(v: &J) -> Vec<String> {
    // DbValueSetV2 serialises as {"Variant": payload}; payload is usually an array of values.
    let payload = match v {
        J::Object(m) if m.len() == 1 => m.values().next().cloned().unwrap_or(J::Null),
        other => other.clone(),
    };
    let mut out: Vec<String> = match payload {
        J::Array(a) => a.iter().map(|x| x.to_string()).collect(),
        other => vec![other.to_string()],
    };
    out.sort();
    out
}

pub fn status_of(e: &Entry<EntrySealed, EntryCommitted>) -> Status {
    if e.has_class(&EntryClass::Tombstone) {
        Status::Tombstone
    } else if e.has_class(&EntryClass::Conflict) {
        Status::Conflict
    } else if e.has_class(&EntryClass::Recycled) {
        Status::Recycled
    } else {
        Status::Live
    }
}

pub fn dump_entry(e: &Entry<EntrySealed, EntryCommitted>) -> EntryDump {
    let dbe = serde_json::to_value(e.to_dbentry()).unwrap_or(J::Null);
    let mut attrs = BTreeMap::new();
    // DbEntry { ent: {"V3": { changestate, attrs }} }
    if let Some(ent) = dbe.get("ent").and_then(|e| e.as_object()).and_then(|m| m.values().next()) {
        if let Some(a) = ent.get("attrs").and_then(|a| a.as_object()) {
            for (k, v) in a {
                attrs.insert(k.clone(), norm_values(v));
            }
        }
    }
    let (at, changes) = match e.get_changestate().current() {
        State::Live { at, changes } => (
            format!("{at:?}"),
            changes.iter().map(|(k, v)| (k.to_string(), format!("{v:?}"))).collect(),
        ),
        State::Tombstone { at } => (format!("{at:?}"), BTreeMap::new()),
    };
    EntryDump {
        uuid: e.get_uuid(),
        id: e.get_id(),
        status: status_of(e),
        attrs,
        at,
        changes,
    }
}

/// All stored entries, whatever their state.
pub fn all_entries<'a, T: QueryServerTransaction<'a>>(txn: &mut T) -> Result<Vec<Arc<Entry<EntrySealed, EntryCommitted>>>, OperationError> {
    txn.internal_search(Filter::new(f_pres(Attribute::Class)))
}

pub fn dump_all<'a, T: QueryServerTransaction<'a>>(txn: &mut T) -> Result<Dump, OperationError> {
    let ents = all_entries(txn)?;
    Ok(ents.iter().map(|e| (e.get_uuid(), dump_entry(e))).collect())
}

/// Difference between two dumps, ignoring `skip_attrs`, and optionally ids / change state.
pub struct DiffOpts<'a> {
    pub skip_attrs: &'a [&'a str],
    pub ids: bool,
    pub changestate: bool,
}

pub fn diff(a: &Dump, b: &Dump, o: &DiffOpts) -> Vec<String> {
    let mut out = Vec::new();
    let keys: BTreeSet<&Uuid> = a.keys().chain(b.keys()).collect();
    for k in keys {
        match (a.get(k), b.get(k)) {
            (Some(_), None) => out.push(format!("{k}: only in left")),
            (None, Some(_)) => out.push(format!("{k}: only in right")),
            (Some(x), Some(y)) => {
                if x.status != y.status {
                    out.push(format!("{k}: status {:?} vs {:?}", x.status, y.status));
                }
                if o.ids && x.id != y.id {
                    out.push(format!("{k}: id {} vs {}", x.id, y.id));
                }
                let ak: BTreeSet<&String> = x.attrs.keys().chain(y.attrs.keys()).collect();
                for at in ak {
                    if o.skip_attrs.contains(&at.as_str()) {
                        continue;
                    }
                    let l = x.attrs.get(at);
                    let r = y.attrs.get(at);
                    if l != r {
                        out.push(format!("{k}: attr {at}: {l:?} vs {r:?}"));
                    }
                }
                if o.changestate {
                    if x.at != y.at {
                        out.push(format!("{k}: at {} vs {}", x.at, y.at));
                    }
                    let ck: BTreeSet<&String> = x.changes.keys().chain(y.changes.keys()).collect();
                    for c in ck {
                        if o.skip_attrs.contains(&c.as_str()) {
                            continue;
                        }
                        if x.changes.get(c) != y.changes.get(c) {
                            out.push(format!("{k}: change cid of {c}: {:?} vs {:?}", x.changes.get(c), y.changes.get(c)));
                        }
                    }
                }
            }
            (None, None) => {}
        }
    }
    out
}

/// Strings of one attribute as the server's proto rendering (names, uuids, ...), sorted.
pub fn proto_values(e: &Entry<EntrySealed, EntryCommitted>, attr: Attribute) -> Vec<String> {
    let mut v: Vec<String> = e
        .get_ava_set(attr)
        .map(|vs| vs.to_proto_string_clone_iter().collect())
        .unwrap_or_default();
    v.sort();
    v
}
