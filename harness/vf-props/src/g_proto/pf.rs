//! Protocol filters (C41): a fixed population with multi-valued attributes (class, mail, member),
//! LDAP and SCIM filter ASTs + generators, and an independent two-valued evaluator of their standard
//! meaning. (At the target domain level the schema is compiled in and schema entries in the database
//! are ignored, so no custom attribute can be added; the population uses shipped attributes only.)
use super::scim::{SC, SF, SV};
use crate::pop;
use kanidmd_lib::entry::Entry;
use kanidmd_lib::prelude::*;
use kanidmd_lib::value::Value;
use kanidmd_lib::verif_hooks::proto::ldap3_proto::proto::{LdapFilter, LdapSubstringFilter};
use proptest::prelude::*;
use serde::{Deserialize, Serialize};
use std::collections::BTreeMap;

// ------------------------------------------------------------------------------------ population

#[derive(Debug, Clone, Copy, PartialEq, Eq)]
pub enum Syn {
    /// case-insensitive identifier
    Iname,
    /// case-insensitive text
    Iutf8,
    /// text: exact equality, case-insensitive substrings
    Utf8,
    Email,
    U32,
    Uuid,
    Refer,
}

pub const ATTRS: [(&str, Syn); 8] = [
    ("name", Syn::Iname),
    ("displayname", Syn::Utf8),
    ("description", Syn::Utf8),
    ("class", Syn::Iutf8),
    ("mail", Syn::Email),
    ("gidnumber", Syn::U32),
    ("uuid", Syn::Uuid),
    ("member", Syn::Refer),
];

pub fn syn_of(attr: &str) -> Option<Syn> {
    ATTRS.iter().find(|(a, _)| *a == attr).map(|(_, s)| *s)
}

/// LDAP spellings accepted for an attribute (aliases and case variants) -> canonical attribute.
pub const LDAP_NAMES: [(&str, &str); 19] = [
    ("name", "name"),
    ("cn", "name"),
    ("uid", "name"),
    ("CN", "name"),
    ("displayname", "displayname"),
    ("gecos", "displayname"),
    ("description", "description"),
    ("class", "class"),
    ("objectClass", "class"),
    ("objectclass", "class"),
    ("mail", "mail"),
    ("emailaddress", "mail"),
    ("gidnumber", "gidnumber"),
    ("uidnumber", "gidnumber"),
    ("gidNumber", "gidnumber"),
    ("uuid", "uuid"),
    ("entryuuid", "uuid"),
    ("entryUUID", "uuid"),
    ("member", "member"),
];

pub fn ldap_canonical(name: &str) -> Option<&'static str> {
    LDAP_NAMES.iter().find(|(l, _)| *l == name).map(|(_, c)| *c)
}

pub fn vid(i: u32) -> Uuid {
    pop::uuid_of(pop::Kind::Other, 0x700 + i)
}

#[derive(Debug, Clone)]
pub struct PEntry {
    pub uuid: Uuid,
    pub attrs: BTreeMap<&'static str, Vec<String>>,
}

fn pe(uuid: Uuid, classes: &[&str], kv: &[(&'static str, &[&str])]) -> PEntry {
    let mut attrs: BTreeMap<&'static str, Vec<String>> = BTreeMap::new();
    attrs.insert("uuid", vec![uuid.as_hyphenated().to_string()]);
    attrs.insert("class", classes.iter().map(|s| s.to_string()).collect());
    for (k, vs) in kv {
        if !vs.is_empty() {
            attrs.insert(k, vs.iter().map(|s| s.to_string()).collect());
        }
    }
    PEntry { uuid, attrs }
}

/// The population. Values are chosen so that every "any value" / "single value" / ordering
/// distinction separates at least two entries.
pub fn population() -> Vec<PEntry> {
    let p = pop::person_uuid;
    let g = pop::group_uuid;
    let pp: Vec<String> = (0..6).map(|i| p(i).as_hyphenated().to_string()).collect();
    let person = ["object", "account", "person"];
    let pperson = ["object", "account", "person", "posixaccount"];
    vec![
        pe(
            p(0),
            &pperson,
            &[
                ("name", &["anna"]),
                ("displayname", &["Anna A"]),
                ("description", &["first"]),
                ("mail", &["a@example.com", "ab@example.org"]),
                ("gidnumber", &["70001"]),
            ],
        ),
        pe(
            p(1),
            &person,
            &[
                ("name", &["bob"]),
                ("displayname", &["bob"]),
                ("mail", &["b@example.com"]),
            ],
        ),
        pe(
            p(2),
            &pperson,
            &[
                ("name", &["carl"]),
                ("displayname", &["Carl"]),
                ("description", &["Second one"]),
                ("gidnumber", &["70002"]),
            ],
        ),
        pe(
            p(3),
            &person,
            &[
                ("name", &["dora"]),
                ("displayname", &["dora d"]),
                ("description", &["first"]),
                ("mail", &["d@example.com", "dd@example.org"]),
            ],
        ),
        pe(p(4), &["object", "account", "person"], &[("name", &["emil"]), ("displayname", &["Emil"])]),
        pe(
            p(5),
            &person,
            &[
                ("name", &["ann"]),
                ("displayname", &["anna a"]),
                ("description", &["aba"]),
            ],
        ),
        pe(
            g(0),
            &["object", "group", "posixgroup"],
            &[("name", &["gus"]), ("description", &["group one"]), ("member", &[pp[0].as_str(), pp[1].as_str()]), ("gidnumber", &["80000"])],
        ),
        pe(g(1), &["object", "group"], &[("name", &["hana"]), ("member", &[pp[1].as_str(), pp[2].as_str(), pp[5].as_str()])]),
        pe(g(2), &["object", "group"], &[("name", &["ivan"]), ("description", &["Second one"])]),
    ]
}

fn to_value(attr: &str, v: &str) -> Value {
    match syn_of(attr).expect("known attr") {
        Syn::Iname => Value::new_iname(v),
        Syn::Iutf8 => Value::new_iutf8(v),
        Syn::Utf8 => Value::new_utf8s(v),
        Syn::Email => Value::new_email_address_s(v).expect("mail"),
        Syn::U32 => Value::Uint32(v.parse().expect("u32")),
        Syn::Uuid => Value::Uuid(Uuid::parse_str(v).expect("uuid")),
        Syn::Refer => Value::Refer(Uuid::parse_str(v).expect("uuid")),
    }
}

/// Population on a fresh server.
pub async fn build_server() -> QueryServer {
    let qs = crate::srv::new_qs().await;
    {
        let mut w = qs.write(crate::srv::ct(7)).await.expect("write");
        let mut ents: Vec<pop::NewEntry> = Vec::new();
        for p in population() {
            let mut e: pop::NewEntry = Entry::new();
            for (a, vs) in &p.attrs {
                for v in vs {
                    let val = if *a == "mail" {
                        // first address is the primary one
                        Value::EmailAddress(v.clone(), v == &vs[0])
                    } else {
                        to_value(a, v)
                    };
                    e.add_ava(Attribute::from(*a), val);
                }
            }
            ents.push(e);
        }
        w.internal_create(ents).expect("population");
        w.reindex(true).expect("reindex");
        w.commit().expect("population commit");
    }
    qs
}

// ------------------------------------------------------------------------------------ leaf semantics

fn norm(syn: Syn, s: &str) -> String {
    match syn {
        Syn::Iname | Syn::Iutf8 => s.to_lowercase(),
        _ => s.to_string(),
    }
}

pub fn leaf_eq(syn: Syn, stored: &str, asked: &str) -> bool {
    match syn {
        Syn::Iname | Syn::Iutf8 => stored.to_lowercase() == asked.to_lowercase(),
        Syn::Utf8 | Syn::Email => stored == asked,
        Syn::U32 => matches!((stored.parse::<u32>(), asked.parse::<u32>()), (Ok(a), Ok(b)) if a == b),
        Syn::Uuid | Syn::Refer => matches!((Uuid::parse_str(stored), Uuid::parse_str(asked)), (Ok(a), Ok(b)) if a == b),
    }
}

/// ordering of one stored value against the asked value (None = not comparable)
pub fn leaf_cmp(syn: Syn, stored: &str, asked: &str) -> Option<std::cmp::Ordering> {
    match syn {
        Syn::U32 => Some(stored.parse::<u32>().ok()?.cmp(&asked.parse::<u32>().ok()?)),
        Syn::Uuid | Syn::Refer => Some(Uuid::parse_str(stored).ok()?.cmp(&Uuid::parse_str(asked).ok()?)),
        Syn::Iname | Syn::Iutf8 | Syn::Utf8 | Syn::Email => Some(norm(syn, stored).cmp(&norm(syn, asked))),
    }
}

fn is_text(syn: Syn) -> bool {
    matches!(syn, Syn::Iname | Syn::Iutf8 | Syn::Utf8 | Syn::Email)
}

/// RFC 4511 substring match on ONE value: initial, any*, final in order, not overlapping.
pub fn substring_one(value: &str, ini: Option<&str>, any: &[String], fin: Option<&str>) -> bool {
    let v = value.to_lowercase();
    let mut pos = 0usize;
    if let Some(i) = ini {
        let i = i.to_lowercase();
        if !v.starts_with(&i) {
            return false;
        }
        pos = i.len();
    }
    for a in any {
        let a = a.to_lowercase();
        match v[pos..].find(&a) {
            Some(k) => pos += k + a.len(),
            None => return false,
        }
    }
    if let Some(f) = fin {
        let f = f.to_lowercase();
        if v.len() < pos + f.len() || !v.ends_with(&f) {
            return false;
        }
    }
    true
}

// ------------------------------------------------------------------------------------ LDAP

#[derive(Debug, Clone, PartialEq, Eq, Hash, Serialize, Deserialize)]
pub enum LF {
    And(Vec<LF>),
    Or(Vec<LF>),
    Not(Box<LF>),
    Eq(String, String),
    Pres(String),
    Sub { attr: String, ini: Option<String>, any: Vec<String>, fin: Option<String> },
    Ge(String, String),
    Le(String, String),
    Approx(String, String),
}

impl LF {
    pub fn to_ldap(&self) -> LdapFilter {
        match self {
            LF::And(l) => LdapFilter::And(l.iter().map(|f| f.to_ldap()).collect()),
            LF::Or(l) => LdapFilter::Or(l.iter().map(|f| f.to_ldap()).collect()),
            LF::Not(f) => LdapFilter::Not(Box::new(f.to_ldap())),
            LF::Eq(a, v) => LdapFilter::Equality(a.clone(), v.clone()),
            LF::Pres(a) => LdapFilter::Present(a.clone()),
            LF::Sub { attr, ini, any, fin } => LdapFilter::Substring(attr.clone(), LdapSubstringFilter { initial: ini.clone(), any: any.clone(), final_: fin.clone() }),
            LF::Ge(a, v) => LdapFilter::GreaterOrEqual(a.clone(), v.clone()),
            LF::Le(a, v) => LdapFilter::LessOrEqual(a.clone(), v.clone()),
            LF::Approx(a, v) => LdapFilter::Approx(a.clone(), v.clone()),
        }
    }
    pub fn render(&self) -> String {
        match self {
            LF::And(l) => format!("(&{})", l.iter().map(|f| f.render()).collect::<String>()),
            LF::Or(l) => format!("(|{})", l.iter().map(|f| f.render()).collect::<String>()),
            LF::Not(f) => format!("(!{})", f.render()),
            LF::Eq(a, v) => format!("({a}={v})"),
            LF::Pres(a) => format!("({a}=*)"),
            LF::Sub { attr, ini, any, fin } => {
                format!("({attr}={}*{}{})", ini.clone().unwrap_or_default(), any.iter().map(|a| format!("{a}*")).collect::<String>(), fin.clone().unwrap_or_default())
            }
            LF::Ge(a, v) => format!("({a}>={v})"),
            LF::Le(a, v) => format!("({a}<={v})"),
            LF::Approx(a, v) => format!("({a}~={v})"),
        }
    }
    /// A NOT that is not a direct member of an AND having a positive (non-NOT) member.
    pub fn has_isolated_not(&self) -> bool {
        fn walk(f: &LF, parent_ok: bool) -> bool {
            match f {
                LF::Not(inner) => !parent_ok || walk(inner, false),
                LF::And(l) => {
                    let has_pos = l.iter().any(|x| !matches!(x, LF::Not(_)));
                    l.iter().any(|x| walk(x, has_pos))
                }
                LF::Or(l) => l.iter().any(|x| walk(x, false)),
                _ => false,
            }
        }
        walk(self, false)
    }
    pub fn labels(&self, out: &mut std::collections::BTreeSet<String>) {
        match self {
            LF::And(l) => {
                out.insert("ldap:and".into());
                l.iter().for_each(|f| f.labels(out));
            }
            LF::Or(l) => {
                out.insert("ldap:or".into());
                l.iter().for_each(|f| f.labels(out));
            }
            LF::Not(f) => {
                out.insert("ldap:not".into());
                f.labels(out);
            }
            LF::Eq(a, _) => {
                out.insert("ldap:equality".into());
                if ldap_canonical(a).map(|c| c != a.as_str()).unwrap_or(false) {
                    out.insert("ldap:attribute-alias".into());
                }
            }
            LF::Pres(_) => {
                out.insert("ldap:present".into());
            }
            LF::Sub { ini, any, fin, .. } => {
                out.insert("ldap:substring".into());
                let n = ini.is_some() as usize + any.len() + fin.is_some() as usize;
                if n >= 2 {
                    out.insert("ldap:substring-multi-component".into());
                }
            }
            LF::Ge(..) | LF::Le(..) => {
                out.insert("ldap:ordering".into());
            }
            LF::Approx(..) => {
                out.insert("ldap:approx".into());
            }
        }
    }
    /// substring filter with >= 2 components (the server matches components independently)
    pub fn has_multi_component_substring(&self) -> bool {
        match self {
            LF::And(l) | LF::Or(l) => l.iter().any(|f| f.has_multi_component_substring()),
            LF::Not(f) => f.has_multi_component_substring(),
            LF::Sub { ini, any, fin, .. } => ini.is_some() as usize + any.len() + fin.is_some() as usize >= 2,
            _ => false,
        }
    }
}

/// Standard meaning (two-valued). `None` = the filter uses something this evaluator has no meaning for.
pub fn eval_ldap(f: &LF, e: &PEntry) -> Option<bool> {
    eval_ldap_m(f, e, false, false)
}

/// The same evaluator with the *known defect model* switched on: a NOT that is not a direct member
/// of an AND with a positive member evaluates to "no entry" (used only to attribute a difference
/// to the known finding, never as the expectation).
pub fn eval_ldap_isolated_not_model(f: &LF, e: &PEntry) -> Option<bool> {
    eval_ldap_m(f, e, true, false)
}

/// Known-defect models for attribution: `iso` = isolated NOT selects nothing; `sub` = the
/// components of a substring filter are matched independently of each other (any value may satisfy
/// each component, no order, overlap allowed).
pub fn eval_ldap_defect_model(f: &LF, e: &PEntry, iso: bool, sub: bool) -> Option<bool> {
    if sub {
        eval_ldap_m(&split_substrings(f), e, iso, false)
    } else {
        eval_ldap_m(f, e, iso, false)
    }
}

/// rewrite `attr=ini*any*fin` into the conjunction of its single-component filters
fn split_substrings(f: &LF) -> LF {
    match f {
        LF::And(l) => LF::And(l.iter().map(split_substrings).collect()),
        LF::Or(l) => LF::Or(l.iter().map(split_substrings).collect()),
        LF::Not(x) => LF::Not(Box::new(split_substrings(x))),
        LF::Sub { attr, ini, any, fin } => {
            let mut parts = Vec::new();
            if let Some(i) = ini {
                parts.push(LF::Sub { attr: attr.clone(), ini: Some(i.clone()), any: vec![], fin: None });
            }
            for a in any {
                parts.push(LF::Sub { attr: attr.clone(), ini: None, any: vec![a.clone()], fin: None });
            }
            if let Some(x) = fin {
                parts.push(LF::Sub { attr: attr.clone(), ini: None, any: vec![], fin: Some(x.clone()) });
            }
            if parts.len() == 1 {
                parts.pop().unwrap_or_else(|| f.clone())
            } else {
                // a conjunction of positive terms: a NOT next to it keeps a positive sibling
                LF::And(parts)
            }
        }
        other => other.clone(),
    }
}

/// does the (flattened) AND have a positive member? Nested ANDs merge into their parent, as the
/// server's optimiser does, so a NOT deeper in a chain of ANDs still has its positive sibling.
fn ldap_and_has_positive(l: &[LF]) -> bool {
    l.iter().any(|x| match x {
        LF::Not(_) => false,
        LF::And(m) => ldap_and_has_positive(m),
        _ => true,
    })
}

/// `parent_ok`: for a NOT - it is a member of a (flattened) AND with a positive member; for an AND -
/// the AND it is nested in (if any) already has one.
fn eval_ldap_m(f: &LF, e: &PEntry, defect: bool, parent_ok: bool) -> Option<bool> {
    Some(match f {
        LF::And(l) => {
            let has_pos = parent_ok || ldap_and_has_positive(l);
            let mut r = true;
            for x in l {
                let ctx = matches!(x, LF::Not(_) | LF::And(_)) && has_pos;
                r &= eval_ldap_m(x, e, defect, ctx)?;
            }
            r
        }
        LF::Or(l) => {
            let mut r = false;
            for x in l {
                r |= eval_ldap_m(x, e, defect, false)?;
            }
            r
        }
        LF::Not(x) => {
            let inner = eval_ldap_m(x, e, defect, false)?;
            if defect && !parent_ok {
                false
            } else {
                !inner
            }
        }
        LF::Eq(a, v) | LF::Approx(a, v) => {
            let c = ldap_canonical(a)?;
            let syn = syn_of(c)?;
            e.attrs.get(c).map(|vs| vs.iter().any(|s| leaf_eq(syn, s, v))).unwrap_or(false)
        }
        LF::Pres(a) => {
            let c = ldap_canonical(a)?;
            e.attrs.get(c).map(|vs| !vs.is_empty()).unwrap_or(false)
        }
        LF::Sub { attr, ini, any, fin } => {
            let c = ldap_canonical(attr)?;
            let syn = syn_of(c)?;
            if !is_text(syn) {
                false
            } else {
                e.attrs.get(c).map(|vs| vs.iter().any(|s| substring_one(s, ini.as_deref(), any, fin.as_deref()))).unwrap_or(false)
            }
        }
        LF::Ge(a, v) => {
            let c = ldap_canonical(a)?;
            let syn = syn_of(c)?;
            e.attrs.get(c).map(|vs| vs.iter().any(|s| matches!(leaf_cmp(syn, s, v), Some(o) if o != std::cmp::Ordering::Less))).unwrap_or(false)
        }
        LF::Le(a, v) => {
            let c = ldap_canonical(a)?;
            let syn = syn_of(c)?;
            e.attrs.get(c).map(|vs| vs.iter().any(|s| matches!(leaf_cmp(syn, s, v), Some(o) if o != std::cmp::Ordering::Greater))).unwrap_or(false)
        }
    })
}

/// Isolated-NOT attribution by assignment: every NOT that is not a direct member of an AND with a
/// positive (non-NOT) member is a *candidate*; whether the server treats a candidate as "no entry"
/// or as the true complement depends on optimiser flattening and on index vs. per-entry evaluation.
/// `bits` chooses per candidate (pre-order numbering): 1 = "no entry", 0 = complement.
pub fn eval_ldap_assign(f: &LF, e: &PEntry, sub: bool, bits: u32) -> Option<bool> {
    let g = if sub { split_substrings(f) } else { f.clone() };
    let mut idx = 0usize;
    ldap_assign(&g, e, bits, &mut idx, false)
}
pub fn ldap_iso_candidates(f: &LF, sub: bool) -> usize {
    fn walk(f: &LF, parent_ok: bool, n: &mut usize) {
        match f {
            LF::Not(x) => {
                if !parent_ok {
                    *n += 1;
                }
                walk(x, false, n);
            }
            LF::And(l) => {
                let has_pos = l.iter().any(|x| !matches!(x, LF::Not(_)));
                l.iter().for_each(|x| walk(x, has_pos, n));
            }
            LF::Or(l) => l.iter().for_each(|x| walk(x, false, n)),
            _ => {}
        }
    }
    let g = if sub { split_substrings(f) } else { f.clone() };
    let mut n = 0;
    walk(&g, false, &mut n);
    n
}
fn ldap_assign(f: &LF, e: &PEntry, bits: u32, idx: &mut usize, parent_ok: bool) -> Option<bool> {
    Some(match f {
        LF::And(l) => {
            let has_pos = l.iter().any(|x| !matches!(x, LF::Not(_)));
            let mut r = true;
            for x in l {
                // no short-circuit: the numbering must not depend on values
                let v = ldap_assign(x, e, bits, idx, has_pos)?;
                r &= v;
            }
            r
        }
        LF::Or(l) => {
            let mut r = false;
            for x in l {
                let v = ldap_assign(x, e, bits, idx, false)?;
                r |= v;
            }
            r
        }
        LF::Not(x) => {
            let me = if !parent_ok {
                let i = *idx;
                *idx += 1;
                Some(i)
            } else {
                None
            };
            let inner = ldap_assign(x, e, bits, idx, false)?;
            match me {
                Some(i) if i < 32 && (bits >> i) & 1 == 1 => false,
                _ => !inner,
            }
        }
        leaf => eval_ldap_m(leaf, e, false, false)?,
    })
}

/// candidate values to ask for, per canonical attribute
pub fn asked_values(attr: &str) -> Vec<String> {
    let p = |i: u32| pop::person_uuid(i).as_hyphenated().to_string();
    let v: Vec<String> = match attr {
        "name" => vec!["anna", "ANNA", "bob", "ann", "gus", "hana", "nobody", "carl"].into_iter().map(String::from).collect(),
        "displayname" => vec!["Anna A", "anna a", "bob", "Bob", "Carl", "Emil", "dora d"].into_iter().map(String::from).collect(),
        "description" => vec!["first", "First", "Second one", "aba", "group one", "none"].into_iter().map(String::from).collect(),
        "class" => vec!["person", "Person", "group", "account", "posixaccount", "object", "posixgroup", "nosuchclass"].into_iter().map(String::from).collect(),
        "mail" => vec!["a@example.com", "b@example.com", "ab@example.org", "dd@example.org", "x@example.com"].into_iter().map(String::from).collect(),
        "gidnumber" => vec!["70001", "70002", "80000", "70000", "1"].into_iter().map(String::from).collect(),
        "uuid" => vec![p(0), p(1), pop::group_uuid(0).as_hyphenated().to_string(), p(4), vid(99).as_hyphenated().to_string()],
        "member" => vec![p(0), p(1), p(2), p(5), p(3)],
        _ => vec!["x".to_string()],
    };
    v
}

/// substring components that separate single-value order/overlap from per-component matching
const PIECES: [&str; 20] = ["ann", "na", "an", "a", "n", "pe", "nt", "on", "acc", "gr", "up", "a@", "org", "com", "ab", "@example", "b", "o", "fir", "st"];

pub fn arb_ldap_leaf() -> BoxedStrategy<LF> {
    let names: Vec<(String, String)> = LDAP_NAMES.iter().map(|(l, c)| (l.to_string(), c.to_string())).collect();
    let name = proptest::sample::select(names);
    let text_names = proptest::sample::select(vec!["name", "cn", "displayname", "gecos", "description", "mail", "class", "objectClass"]);
    let piece = proptest::sample::select(PIECES.to_vec()).prop_map(|s| s.to_string());
    prop_oneof![
        18 => (name.clone(), any::<u16>()).prop_map(|((l, c), k)| {
            let vs = asked_values(&c);
            LF::Eq(l, vs[vf_core::pick_idx(k, vs.len())].clone())
        }),
        6 => name.clone().prop_map(|(l, _)| LF::Pres(l)),
        // single-component substrings
        7 => (text_names.clone(), piece.clone(), 0u8..3).prop_map(|(a, p, k)| match k {
            0 => LF::Sub { attr: a.to_string(), ini: Some(p), any: vec![], fin: None },
            1 => LF::Sub { attr: a.to_string(), ini: None, any: vec![p], fin: None },
            _ => LF::Sub { attr: a.to_string(), ini: None, any: vec![], fin: Some(p) },
        }),
        // multi-component substrings (a counted minority: the server matches components independently)
        2 => (proptest::sample::select(vec!["class", "mail", "name", "description", "displayname", "objectclass"]), proptest::option::of(piece.clone()), proptest::collection::vec(piece.clone(), 0..3), proptest::option::of(piece.clone()))
            .prop_map(|(a, ini, any, fin)| {
                if ini.is_none() && any.is_empty() && fin.is_none() {
                    LF::Sub { attr: a.to_string(), ini: Some("pe".into()), any: vec![], fin: Some("nt".into()) }
                } else {
                    LF::Sub { attr: a.to_string(), ini, any, fin }
                }
            }),
        1 => (name.clone(), any::<u16>(), 0u8..3).prop_map(|((l, c), k, op)| {
            let vs = asked_values(&c);
            let v = vs[vf_core::pick_idx(k, vs.len())].clone();
            match op { 0 => LF::Ge(l, v), 1 => LF::Le(l, v), _ => LF::Approx(l, v) }
        }),
        1 => Just(LF::Eq("nosuchattr".into(), "x".into())),
        1 => Just(LF::Eq("gidnumber".into(), "notanumber".into())),
    ]
    .boxed()
}

pub fn arb_ldap(depth: u32) -> BoxedStrategy<LF> {
    arb_ldap_leaf()
        .prop_recursive(depth, 40, 4, |inner| {
            prop_oneof![
                4 => proptest::collection::vec(inner.clone(), 1..4).prop_map(LF::And),
                4 => proptest::collection::vec(inner.clone(), 1..4).prop_map(LF::Or),
                // the supported shape of negation: positive term AND NOT
                4 => (inner.clone(), inner.clone()).prop_map(|(p, n)| LF::And(vec![p, LF::Not(Box::new(n))])),
                2 => (inner.clone(), inner.clone(), inner.clone()).prop_map(|(p, n, m)| LF::And(vec![LF::Not(Box::new(n)), p, LF::Not(Box::new(m))])),
                // free NOT (isolated unless it lands under a suitable AND): counted minority
                1 => inner.prop_map(|f| LF::Not(Box::new(f))),
            ]
        })
        .boxed()
}

// ------------------------------------------------------------------------------------ SCIM

pub fn scim_has_isolated_not(f: &SF) -> bool {
    fn walk(f: &SF, parent_ok: bool) -> bool {
        match f {
            SF::Not(inner) => !parent_ok || walk(inner, false),
            SF::And(a, b) => {
                let has_pos = !matches!(**a, SF::Not(_)) || !matches!(**b, SF::Not(_));
                walk(a, has_pos) || walk(b, has_pos)
            }
            SF::Or(a, b) => walk(a, false) || walk(b, false),
            _ => false,
        }
    }
    walk(f, false)
}

/// (has ordering on text syntax, has gt/ge on a multi-valued ordered attribute)
pub fn scim_ordering_features(f: &SF) -> (bool, bool) {
    match f {
        SF::And(a, b) | SF::Or(a, b) => {
            let (x1, y1) = scim_ordering_features(a);
            let (x2, y2) = scim_ordering_features(b);
            (x1 || x2, y1 || y2)
        }
        SF::Not(a) => scim_ordering_features(a),
        SF::Leaf { op, attr, .. } if (6..=9).contains(&(op % 10)) => {
            let syn = syn_of(&attr.to_lowercase());
            let text = syn.map(is_text).unwrap_or(false);
            let multi_gt = matches!(op % 10, 6 | 8) && matches!(attr.to_lowercase().as_str(), "member" | "class" | "mail");
            (text, multi_gt)
        }
        _ => (false, false),
    }
}

fn sv_text(v: &SV) -> Option<String> {
    match v {
        SV::Str(s) => Some(s.clone()),
        SV::Int(i) => Some(i.to_string()),
        SV::Big(u) => Some(u.to_string()),
        _ => None,
    }
}

/// RFC 7644 meaning, two-valued, any-value for multi-valued attributes.
/// `None` = outside what this evaluator defines (sub-attributes, complex filters, `ne`, value of the wrong JSON type).
pub fn eval_scim(f: &SF, e: &PEntry) -> Option<bool> {
    eval_scim_m(f, e, false, false, false)
}
/// Known-defect models for attribution: `iso` as for LDAP; `rewrite` = ordering operators evaluated
/// through the rewrites gt := pr and not (lt or eq), ge := pr and not lt, le := lt or eq, with `lt`
/// never true on text syntaxes (so gt/ge mean "all values", and text ordering is not lexicographic).
pub fn eval_scim_defect_model(f: &SF, e: &PEntry, iso: bool, rewrite: bool) -> Option<bool> {
    eval_scim_m(f, e, iso, false, rewrite)
}
/// Known-defect model (isolated NOT selects nothing); see `eval_ldap_isolated_not_model`.
pub fn eval_scim_isolated_not_model(f: &SF, e: &PEntry) -> Option<bool> {
    eval_scim_m(f, e, true, false, false)
}
fn scim_and_has_positive(a: &SF, b: &SF) -> bool {
    let pos = |x: &SF| match x {
        SF::Not(_) => false,
        SF::And(p, q) => scim_and_has_positive(p, q),
        _ => true,
    };
    pos(a) || pos(b)
}
fn eval_scim_m(f: &SF, e: &PEntry, defect: bool, parent_ok: bool, rewrite: bool) -> Option<bool> {
    Some(match f {
        SF::And(a, b) => {
            let has_pos = parent_ok || scim_and_has_positive(a, b);
            let ctx = |x: &SF| matches!(x, SF::Not(_) | SF::And(..)) && has_pos;
            let x = eval_scim_m(a, e, defect, ctx(a), rewrite)?;
            let y = eval_scim_m(b, e, defect, ctx(b), rewrite)?;
            x && y
        }
        SF::Or(a, b) => {
            let x = eval_scim_m(a, e, defect, false, rewrite)?;
            let y = eval_scim_m(b, e, defect, false, rewrite)?;
            x || y
        }
        SF::Not(a) => {
            let inner = eval_scim_m(a, e, defect, false, rewrite)?;
            if defect && !parent_ok {
                false
            } else {
                !inner
            }
        }
        SF::Complex(..) => return None,
        SF::Leaf { sub: Some(_), .. } => return None,
        SF::Leaf { op, attr, val, .. } => {
            let c = attr.to_lowercase();
            let syn = syn_of(&c)?;
            let vs = e.attrs.get(c.as_str());
            let op = op % 10;
            if op == 0 {
                return Some(vs.map(|v| !v.is_empty()).unwrap_or(false));
            }
            // JSON type must fit the attribute type
            let asked = match (syn, val) {
                (Syn::U32, SV::Int(_)) | (Syn::U32, SV::Big(_)) => sv_text(val)?,
                (Syn::U32, _) => return None,
                (_, SV::Str(s)) => s.clone(),
                _ => return None,
            };
            let any = |p: &dyn Fn(&str) -> bool| vs.map(|v| v.iter().any(|s| p(s))).unwrap_or(false);
            match op {
                1 => any(&|s| leaf_eq(syn, s, &asked)),
                2 => return None,
                3 => is_text(syn) && any(&|s| s.to_lowercase().contains(&asked.to_lowercase())),
                4 => is_text(syn) && any(&|s| s.to_lowercase().starts_with(&asked.to_lowercase())),
                5 => is_text(syn) && any(&|s| s.to_lowercase().ends_with(&asked.to_lowercase())),
                6..=9 if rewrite => {
                    let present = vs.map(|v| !v.is_empty()).unwrap_or(false);
                    let lt = !is_text(syn) && any(&|s| leaf_cmp(syn, s, &asked) == Some(std::cmp::Ordering::Less));
                    let eq = any(&|s| leaf_eq(syn, s, &asked));
                    match op {
                        6 => present && !(lt || eq),
                        7 => lt,
                        8 => present && !lt,
                        _ => lt || eq,
                    }
                }
                6 => any(&|s| leaf_cmp(syn, s, &asked) == Some(std::cmp::Ordering::Greater)),
                7 => any(&|s| leaf_cmp(syn, s, &asked) == Some(std::cmp::Ordering::Less)),
                8 => any(&|s| matches!(leaf_cmp(syn, s, &asked), Some(o) if o != std::cmp::Ordering::Less)),
                _ => any(&|s| matches!(leaf_cmp(syn, s, &asked), Some(o) if o != std::cmp::Ordering::Greater)),
            }
        }
    })
}

/// SCIM counterpart of `eval_ldap_assign` (binary AND/OR).
pub fn eval_scim_assign(f: &SF, e: &PEntry, rewrite: bool, bits: u32) -> Option<bool> {
    let mut idx = 0usize;
    scim_assign(f, e, rewrite, bits, &mut idx, false)
}
pub fn scim_iso_candidates(f: &SF) -> usize {
    fn walk(f: &SF, parent_ok: bool, n: &mut usize) {
        match f {
            SF::Not(x) => {
                if !parent_ok {
                    *n += 1;
                }
                walk(x, false, n);
            }
            SF::And(a, b) => {
                let has_pos = !matches!(**a, SF::Not(_)) || !matches!(**b, SF::Not(_));
                walk(a, has_pos, n);
                walk(b, has_pos, n);
            }
            SF::Or(a, b) => {
                walk(a, false, n);
                walk(b, false, n);
            }
            _ => {}
        }
    }
    let mut n = 0;
    walk(f, false, &mut n);
    n
}
fn scim_assign(f: &SF, e: &PEntry, rewrite: bool, bits: u32, idx: &mut usize, parent_ok: bool) -> Option<bool> {
    Some(match f {
        SF::And(a, b) => {
            let has_pos = !matches!(**a, SF::Not(_)) || !matches!(**b, SF::Not(_));
            let x = scim_assign(a, e, rewrite, bits, idx, has_pos)?;
            let y = scim_assign(b, e, rewrite, bits, idx, has_pos)?;
            x && y
        }
        SF::Or(a, b) => {
            let x = scim_assign(a, e, rewrite, bits, idx, false)?;
            let y = scim_assign(b, e, rewrite, bits, idx, false)?;
            x || y
        }
        SF::Not(x) => {
            let me = if !parent_ok {
                let i = *idx;
                *idx += 1;
                Some(i)
            } else {
                None
            };
            let inner = scim_assign(x, e, rewrite, bits, idx, false)?;
            match me {
                Some(i) if i < 32 && (bits >> i) & 1 == 1 => false,
                _ => !inner,
            }
        }
        leaf => eval_scim_m(leaf, e, false, false, rewrite)?,
    })
}

pub fn arb_scim_leaf() -> BoxedStrategy<SF> {
    // attributes the SCIM value resolver accepts are favoured; mail / gidnumber (refused) stay a small minority
    let attr = proptest::sample::select(vec![
        "name", "name", "name", "displayname", "displayname", "description", "description", "class", "class", "class", "uuid", "uuid", "member", "member", "member", "mail", "gidnumber",
    ]);
    prop_oneof![
        // equality / presence / substrings on every attribute
        24 => (attr.clone(), any::<u16>(), proptest::sample::select(vec![0u8, 1, 1, 1, 3, 4, 5])).prop_map(|(a, k, op)| {
            let vs = asked_values(a);
            let v = vs[vf_core::pick_idx(k, vs.len())].clone();
            let (v, op) = if matches!(op, 3 | 4 | 5) && syn_of(a).map(is_text).unwrap_or(false) {
                // a fragment of the value
                let chars: Vec<char> = v.chars().collect();
                let n = chars.len().clamp(1, 3);
                let frag: String = match op { 4 => chars[..n].iter().collect(), 5 => chars[chars.len() - n..].iter().collect(), _ => chars[chars.len() / 3..(chars.len() / 3 + n).min(chars.len())].iter().collect() };
                (frag, op)
            } else {
                (v, op)
            };
            let val = match syn_of(a) { Some(Syn::U32) => SV::Int(v.parse().unwrap_or(0)), _ => SV::Str(v) };
            SF::Leaf { op, attr: a.to_string(), sub: None, val }
        }),
        // ordering on attributes whose syntax has an order (uuid, references; uint32 is refused by the SCIM front-end)
        6 => (proptest::sample::select(vec!["uuid", "uuid", "member", "member", "member"]), any::<u16>(), 6u8..10).prop_map(|(a, k, op)| {
            let vs = asked_values(a);
            let v = vs[vf_core::pick_idx(k, vs.len())].clone();
            let val = match syn_of(a) { Some(Syn::U32) => SV::Int(v.parse().unwrap_or(0)), _ => SV::Str(v) };
            SF::Leaf { op, attr: a.to_string(), sub: None, val }
        }),
        // ordering on text (a counted minority)
        2 => (proptest::sample::select(vec!["name", "displayname", "description", "class"]), any::<u16>(), 6u8..10).prop_map(|(a, k, op)| {
            let vs = asked_values(a);
            SF::Leaf { op, attr: a.to_string(), sub: None, val: SV::Str(vs[vf_core::pick_idx(k, vs.len())].clone()) }
        }),
        // things the front-end documents as unsupported (rare: one such leaf makes the whole filter a refusal)
        1 => prop_oneof![
            Just(SF::Leaf { op: 2, attr: "name".into(), sub: None, val: SV::Str("anna".into()) }),
            Just(SF::Leaf { op: 1, attr: "mail".into(), sub: Some("value".into()), val: SV::Str("a@example.com".into()) }),
            Just(SF::Complex("mail".into(), Box::new(SC::Leaf { op: 1, sub: "value".into(), val: SV::Str("a@example.com".into()) }))),
            Just(SF::Leaf { op: 1, attr: "nosuchattr".into(), sub: None, val: SV::Str("x".into()) }),
            Just(SF::Leaf { op: 1, attr: "name".into(), sub: None, val: SV::Int(5) }),
            Just(SF::Leaf { op: 1, attr: "name".into(), sub: None, val: SV::Null }),
        ],
    ]
    .boxed()
}

pub fn arb_scim(depth: u32) -> BoxedStrategy<SF> {
    arb_scim_leaf()
        .prop_recursive(depth, 32, 2, |inner| {
            prop_oneof![
                4 => (inner.clone(), inner.clone()).prop_map(|(a, b)| SF::And(Box::new(a), Box::new(b))),
                4 => (inner.clone(), inner.clone()).prop_map(|(a, b)| SF::Or(Box::new(a), Box::new(b))),
                4 => (inner.clone(), inner.clone()).prop_map(|(a, b)| SF::And(Box::new(a), Box::new(SF::Not(Box::new(b))))),
                1 => inner.prop_map(|a| SF::Not(Box::new(a))),
            ]
        })
        .boxed()
}
