//! OAuth2 world for C38 / C39: generated client configurations, users, sessions, request
//! generators and thin drivers around the server's OAuth2 entry points.
use crate::pop;
use crate::srv;
use kanidm_proto::oauth2::{
    AccessTokenIntrospectRequest, AccessTokenIntrospectResponse, AccessTokenRequest, AccessTokenResponse, AuthorisationRequest, ClientPostAuth, CodeChallengeMethod,
    GrantTypeReq, PkceRequest, Prompt, ResponseType,
};
use kanidmd_lib::constants::uuids::*;
use kanidmd_lib::entry::Entry;
use kanidmd_lib::idm::oauth2::{AuthorisationRequestContext, AuthoriseResponse, Oauth2Error, PkceS256Secret};
use kanidmd_lib::prelude::*;
use kanidmd_lib::value::Value;
use kanidmd_lib::verif_hooks::proto as hooks;
use proptest::prelude::*;
use serde::{Deserialize, Serialize};
use std::collections::BTreeSet;

pub const SCOPES: [&str; 5] = ["openid", "profile", "email", "groups", "read"];
pub const SUP_SCOPES: [&str; 2] = ["supplement", "extra"];

/// Registered redirect / origin candidates.
pub const ORIGINS: [&str; 7] = [
    "https://demo.example.com/oauth2/result",
    "https://portal.example.com/?custom=foo",
    "https://demo.example.com/cb",
    "https://demo.example.com/cb/",
    "app://cheese",
    "com.example.app:/cb",
    "https://xn--bcher-kva.example/cb",
];
pub const LANDING: &str = "https://demo.example.com";

/// Redirect URIs requests may carry: the registered ones, near misses and loopback forms.
pub const REDIRECTS: [&str; 41] = [
    "https://demo.example.com/oauth2/result",
    "https://portal.example.com/?custom=foo",
    "https://demo.example.com/cb",
    "https://demo.example.com/cb/",
    "app://cheese",
    "com.example.app:/cb",
    "https://xn--bcher-kva.example/cb",
    "https://demo.example.com",
    "https://demo.example.com/",
    "https://demo.example.com/oauth2/result/",
    "https://demo.example.com/oauth2/result?x=1",
    "https://demo.example.com/oauth2/result#frag",
    "https://demo.example.com/oauth2/Result",
    "https://DEMO.example.com/oauth2/result",
    "https://demo.example.com:443/oauth2/result",
    "https://demo.example.com:8443/oauth2/result",
    "https://user@demo.example.com/oauth2/result",
    "http://demo.example.com/oauth2/result",
    "https://demo.example.com.evil.net/oauth2/result",
    "https://demo.example.com/oauth2/result/../result2",
    "https://portal.example.com/",
    "https://portal.example.com/?custom=bar",
    "https://bücher.example/cb",
    "app://cheese/extra",
    "app://wine",
    "http://localhost/cb",
    "http://localhost:8080/cb",
    "http://127.0.0.1:9999/",
    "http://[::1]/cb",
    "http://127.1/cb",
    "http://127.255.0.3/x",
    "http://localhost.evil.net/cb",
    // look-alikes of the loopback name (suffix / prefix / subdomain): never loopback
    "http://notlocalhost/cb",
    "http://evil-localhost:8765/cb",
    "http://x.localhost/cb",
    "http://login.attackerlocalhost/cb",
    "http://localhost.localdomain/cb",
    "http://localhost1/cb",
    "http://127.0.0.1.example.com/cb",
    "https://localhost/cb",
    "http://LOCALHOST/x",
];

#[derive(Debug, Clone, PartialEq, Eq, Hash, Serialize, Deserialize)]
pub struct Cfg {
    pub public: bool,
    /// indices into ORIGINS
    pub origins: Vec<u8>,
    /// public clients only
    pub allow_localhost: bool,
    /// basic clients only
    pub disable_pkce: bool,
    /// basic clients only: false switches the consent screen off
    pub consent_prompt: bool,
    /// scope map of group A / group B / all accounts (indices into SCOPES)
    pub scope_a: Vec<u8>,
    pub scope_b: Vec<u8>,
    pub scope_all: Vec<u8>,
    /// supplementary scope maps (indices into SUP_SCOPES)
    pub sup_a: Vec<u8>,
    pub sup_b: Vec<u8>,
    pub sup_all: Vec<u8>,
    pub user_in_a: bool,
    pub user_in_b: bool,
}

fn pick<'a>(pool: &'a [&'a str], idx: &[u8]) -> BTreeSet<String> {
    idx.iter().map(|i| pool[*i as usize % pool.len()].to_string()).collect()
}

impl Cfg {
    pub fn requires_pkce(&self) -> bool {
        self.public || !self.disable_pkce
    }
    /// Registered redirect URIs as the configuration states them (landing + origins), fragment-free,
    /// in the url crate's serialisation.
    pub fn registered(&self) -> BTreeSet<String> {
        let mut out = BTreeSet::new();
        for s in std::iter::once(LANDING).chain(self.origins.iter().map(|i| ORIGINS[*i as usize % ORIGINS.len()])) {
            if let Ok(mut u) = Url::parse(s) {
                u.set_fragment(None);
                out.insert(u.as_str().to_string());
            }
        }
        out
    }
    /// scopes the user holds through the client's scope maps
    pub fn held(&self) -> BTreeSet<String> {
        let mut s = pick(&SCOPES, &self.scope_all);
        if self.user_in_a {
            s.extend(pick(&SCOPES, &self.scope_a));
        }
        if self.user_in_b {
            s.extend(pick(&SCOPES, &self.scope_b));
        }
        s
    }
    pub fn held_sup(&self) -> BTreeSet<String> {
        let mut s = pick(&SUP_SCOPES, &self.sup_all);
        if self.user_in_a {
            s.extend(pick(&SUP_SCOPES, &self.sup_a));
        }
        if self.user_in_b {
            s.extend(pick(&SUP_SCOPES, &self.sup_b));
        }
        s
    }
}

/// host is `localhost` or a loopback address (written from RFC 8252 §7.3 / RFC 6890, not from the server)
pub fn is_loopback(u: &Url) -> bool {
    match u.host_str() {
        None => false,
        Some(h) => {
            let h = h.trim_start_matches('[').trim_end_matches(']');
            if h.eq_ignore_ascii_case("localhost") {
                return true;
            }
            if let Ok(ip) = h.parse::<std::net::Ipv4Addr>() {
                return ip.octets()[0] == 127;
            }
            if let Ok(ip) = h.parse::<std::net::Ipv6Addr>() {
                return ip == std::net::Ipv6Addr::new(0, 0, 0, 0, 0, 0, 0, 1);
            }
            false
        }
    }
}

pub fn arb_cfg() -> BoxedStrategy<Cfg> {
    let idx = |n: u8, max: usize| proptest::collection::vec(0u8..n, 0..=max);
    (
        any::<bool>(),
        proptest::collection::vec(0u8..ORIGINS.len() as u8, 1..4),
        any::<bool>(),
        proptest::bool::weighted(0.3),
        proptest::bool::weighted(0.6),
        (idx(5, 3), idx(5, 2), idx(5, 2)),
        (idx(2, 1), idx(2, 1), idx(2, 1)),
        proptest::bool::weighted(0.7),
        proptest::bool::weighted(0.4),
    )
        .prop_map(|(public, origins, allow_localhost, disable_pkce, consent_prompt, (scope_a, scope_b, scope_all), (sup_a, sup_b, sup_all), user_in_a, user_in_b)| Cfg {
            public,
            origins,
            allow_localhost,
            disable_pkce,
            consent_prompt,
            scope_a,
            scope_b,
            scope_all,
            sup_a,
            sup_b,
            sup_all,
            user_in_a,
            user_in_b,
        })
        .boxed()
}

#[derive(Debug, Clone, Copy, PartialEq, Eq, Hash, Serialize, Deserialize)]
pub enum Who {
    User,
    Anonymous,
    NoSession,
}

#[derive(Debug, Clone, PartialEq, Eq, Hash, Serialize, Deserialize)]
pub enum Pkce {
    None,
    /// S256 challenge derived from verifier number k
    S256(u8),
    /// S256 method with bytes that are no verifier's hash
    Garbage,
}

#[derive(Debug, Clone, PartialEq, Eq, Hash, Serialize, Deserialize)]
pub struct Req {
    /// index into REDIRECTS
    pub redirect: u8,
    /// indices into SCOPES; 250+ = a scope nobody maps ("admin")
    pub scopes: Vec<u8>,
    pub pkce: Pkce,
    pub who: Who,
    pub prompt: u8,
    pub wrong_client: bool,
}

impl Req {
    pub fn redirect_url(&self) -> Url {
        Url::parse(REDIRECTS[self.redirect as usize % REDIRECTS.len()]).expect("redirect pool parses")
    }
    pub fn scope_set(&self) -> BTreeSet<String> {
        self.scopes.iter().map(|i| if *i >= 250 { "admin".to_string() } else { SCOPES[*i as usize % SCOPES.len()].to_string() }).collect()
    }
}

pub fn verifier(k: u8) -> String {
    format!("verifier-{:02}-abcdefghijklmnopqrstuvwxyz0123456789ABCDEFGHIJ", k % 4)
}

/// Requests biased towards acceptable ones for `cfg` (so that codes are issued), each field mutated with some probability.
pub fn arb_req(cfg: &Cfg) -> BoxedStrategy<Req> {
    let registered: Vec<u8> = (0..REDIRECTS.len() as u8).filter(|i| cfg.registered().contains(Url::parse(REDIRECTS[*i as usize]).map(|u| u.as_str().to_string()).unwrap_or_default().as_str())).collect();
    let loopbacks: Vec<u8> = (25u8..34).collect();
    let held: Vec<u8> = (0..SCOPES.len() as u8).filter(|i| cfg.held().contains(SCOPES[*i as usize])).collect();
    let good_redirect = if registered.is_empty() { Just(0u8).boxed() } else { proptest::sample::select(registered).boxed() };
    let redirect = prop_oneof![6 => good_redirect, 2 => proptest::sample::select(loopbacks), 3 => 0u8..REDIRECTS.len() as u8];
    let good_scopes = if held.is_empty() { Just(vec![0u8]).boxed() } else { proptest::sample::subsequence(held.clone(), 1..=held.len()).boxed() };
    let scopes = prop_oneof![
        6 => good_scopes,
        2 => proptest::collection::vec(0u8..SCOPES.len() as u8, 0..4),
        1 => proptest::collection::vec(prop_oneof![4 => 0u8..5, 1 => Just(255u8)], 1..3),
    ];
    let pkce = prop_oneof![3 => Just(Pkce::None), 6 => (0u8..4).prop_map(Pkce::S256), 1 => Just(Pkce::Garbage)];
    let who = prop_oneof![8 => Just(Who::User), 1 => Just(Who::Anonymous), 1 => Just(Who::NoSession)];
    (redirect, scopes, pkce, who, prop_oneof![6 => Just(0u8), 1 => 1u8..5], proptest::bool::weighted(0.05))
        .prop_map(|(redirect, scopes, pkce, who, prompt, wrong_client)| Req { redirect, scopes, pkce, who, prompt, wrong_client })
        .boxed()
}

// ------------------------------------------------------------------------------------ world

pub const CLIENT: &str = "test_rs";
pub const OTHER_CLIENT: &str = "other_rs";

pub struct World {
    pub idms: IdmServer,
    pub _delayed: IdmServerDelayed,
    pub _audit: IdmServerAudit,
    pub secret: Option<String>,
    pub other_secret: String,
    pub user: Uuid,
    pub user_ident: Identity,
    pub user_session: Uuid,
    pub anon_ident: Option<Identity>,
    /// seconds after the world epoch at which the world was set up
    pub t0: u64,
}

pub fn group_a() -> Uuid {
    pop::group_uuid(1)
}
pub fn group_b() -> Uuid {
    pop::group_uuid(2)
}

fn scopemap(g: Uuid, s: BTreeSet<String>) -> Option<Value> {
    if s.is_empty() {
        None
    } else {
        Value::new_oauthscopemap(g, s)
    }
}

pub async fn setup(cfg: &Cfg) -> Result<World, String> {
    let qs = srv::new_qs().await;
    let (idms, delayed, audit) = srv::new_idms(qs).await;
    let t0 = 100u64;
    let ct = srv::ct(t0);
    let user = pop::person_uuid(0);
    let rs = pop::uuid_of(pop::Kind::OAuth2, 0);
    let other = pop::uuid_of(pop::Kind::OAuth2, 1);
    let mut w = idms.proxy_write(ct).await.map_err(|e| format!("{e:?}"))?;
    let mut ents: Vec<pop::NewEntry> = Vec::new();
    ents.push(pop::person(user, "testuser"));
    let mut ga = pop::group(group_a(), "group_a", &[]);
    let mut gb = pop::group(group_b(), "group_b", &[]);
    if cfg.user_in_a {
        ga.add_ava(Attribute::Member, Value::Refer(user));
    }
    if cfg.user_in_b {
        gb.add_ava(Attribute::Member, Value::Refer(user));
    }
    ents.push(ga);
    ents.push(gb);
    for (uuid, name, public) in [(rs, CLIENT, cfg.public), (other, OTHER_CLIENT, false)] {
        let mut e: pop::NewEntry = Entry::new();
        e.add_ava(Attribute::Class, EntryClass::Object.to_value());
        e.add_ava(Attribute::Class, EntryClass::Account.to_value());
        e.add_ava(Attribute::Class, EntryClass::OAuth2ResourceServer.to_value());
        e.add_ava(Attribute::Class, if public { EntryClass::OAuth2ResourceServerPublic.to_value() } else { EntryClass::OAuth2ResourceServerBasic.to_value() });
        e.add_ava(Attribute::Uuid, Value::Uuid(uuid));
        e.add_ava(Attribute::Name, Value::new_iname(name));
        e.add_ava(Attribute::DisplayName, Value::new_utf8s(name));
        e.add_ava(Attribute::OAuth2RsOriginLanding, Value::new_url_s(LANDING).ok_or("landing url")?);
        if name == CLIENT {
            for i in &cfg.origins {
                e.add_ava(Attribute::OAuth2RsOrigin, Value::new_url_s(ORIGINS[*i as usize % ORIGINS.len()]).ok_or("origin url")?);
            }
            for (g, m) in [(group_a(), &cfg.scope_a), (group_b(), &cfg.scope_b), (UUID_IDM_ALL_ACCOUNTS, &cfg.scope_all)] {
                if let Some(v) = scopemap(g, pick(&SCOPES, m)) {
                    e.add_ava(Attribute::OAuth2RsScopeMap, v);
                }
            }
            for (g, m) in [(group_a(), &cfg.sup_a), (group_b(), &cfg.sup_b), (UUID_IDM_ALL_ACCOUNTS, &cfg.sup_all)] {
                if let Some(v) = scopemap(g, pick(&SUP_SCOPES, m)) {
                    e.add_ava(Attribute::OAuth2RsSupScopeMap, v);
                }
            }
            if public {
                e.add_ava(Attribute::OAuth2AllowLocalhostRedirect, Value::new_bool(cfg.allow_localhost));
            } else {
                e.add_ava(Attribute::OAuth2AllowInsecureClientDisablePkce, Value::new_bool(cfg.disable_pkce));
                e.add_ava(Attribute::OAuth2ConsentPromptEnable, Value::new_bool(cfg.consent_prompt));
            }
        } else {
            e.add_ava(Attribute::OAuth2RsOrigin, Value::new_url_s(ORIGINS[0]).ok_or("origin url")?);
            let all: BTreeSet<String> = SCOPES.iter().map(|s| s.to_string()).collect();
            e.add_ava(Attribute::OAuth2RsScopeMap, Value::new_oauthscopemap(UUID_IDM_ALL_ACCOUNTS, all).ok_or("scopemap")?);
            e.add_ava(Attribute::OAuth2AllowInsecureClientDisablePkce, Value::new_bool(true));
        }
        ents.push(e);
    }
    w.qs_write.internal_create(ents).map_err(|e| format!("create: {e:?}"))?;
    let secret_of = |w: &mut kanidmd_lib::idm::server::IdmServerProxyWriteTransaction<'_>, u: Uuid| -> Option<String> {
        w.qs_write.internal_search_uuid(u).ok().and_then(|e| e.get_ava_single_secret(Attribute::OAuth2RsBasicSecret).map(str::to_string))
    };
    let secret = if cfg.public { None } else { secret_of(&mut w, rs) };
    let other_secret = secret_of(&mut w, other).ok_or("other client has no secret")?;
    if !cfg.public && secret.is_none() {
        return Err("basic client has no secret".into());
    }
    let user_session = pop::uuid_of(pop::Kind::Other, 0x5e55);
    let (_uat, user_ident) = hooks::issue_session(&mut w, user, user_session, pop::uuid_of(pop::Kind::Other, 0xc4ed), ct).map_err(|e| format!("session: {e:?}"))?;
    // the anonymous account as an identity (what an anonymous login resolves to)
    let anon_ident = w.qs_write.internal_search_uuid(UUID_ANONYMOUS).ok().map(kanidmd_lib::verif_hooks::ident::user_readwrite);
    w.commit().map_err(|e| format!("commit: {e:?}"))?;
    Ok(World { idms, _delayed: delayed, _audit: audit, secret, other_secret, user, user_ident, user_session, anon_ident, t0 })
}

pub fn pkce_request(p: &Pkce) -> Option<PkceRequest> {
    match p {
        Pkce::None => None,
        Pkce::S256(k) => Some(PkceS256Secret::from(verifier(*k)).to_request()),
        Pkce::Garbage => Some(PkceRequest { code_challenge: vec![7u8; 32], code_challenge_method: CodeChallengeMethod::S256 }),
    }
}

pub fn auth_request(r: &Req) -> AuthorisationRequest {
    let prompt = match r.prompt % 5 {
        0 => vec![],
        1 => vec![Prompt::Consent],
        2 => vec![Prompt::None],
        3 => vec![Prompt::Login],
        _ => vec![Prompt::SelectAccount],
    };
    AuthorisationRequest {
        response_type: ResponseType::Code,
        response_mode: None,
        client_id: if r.wrong_client { "no_such_client".to_string() } else { CLIENT.to_string() },
        state: Some("123".to_string()),
        pkce_request: pkce_request(&r.pkce),
        redirect_uri: r.redirect_url(),
        scope: r.scope_set(),
        nonce: Some("abcdef".to_string()),
        oidc_ext: Default::default(),
        max_age: None,
        prompt,
        ui_locales: Default::default(),
        unknown_keys: Default::default(),
    }
}

#[derive(Debug)]
pub enum AuthOutcome {
    /// an authorisation code was issued
    Code { code: String, via_consent: bool, consent_scopes: Option<BTreeSet<String>> },
    /// login / re-login demanded (no code)
    NeedsAuth,
    Refused(String),
}

/// Run the authorisation request; when consent is requested, give it (as the same user).
pub async fn authorise(w: &World, r: &Req, ct: Duration) -> AuthOutcome {
    let req = auth_request(r);
    let ident = match r.who {
        Who::User => Some(&w.user_ident),
        Who::Anonymous => match &w.anon_ident {
            Some(i) => Some(i),
            None => return AuthOutcome::Refused("harness: no anonymous session".into()),
        },
        Who::NoSession => None,
    };
    let resp = {
        let rd = match w.idms.proxy_read().await {
            Ok(r) => r,
            Err(e) => return AuthOutcome::Refused(format!("harness: {e:?}")),
        };
        rd.check_oauth2_authorisation(ident, &req, &AuthorisationRequestContext::default(), ct)
    };
    match resp {
        Ok(AuthoriseResponse::Permitted(p)) => AuthOutcome::Code { code: p.code, via_consent: false, consent_scopes: None },
        Ok(AuthoriseResponse::ConsentRequested { scopes, consent_token, .. }) => {
            let Some(ident) = ident else { return AuthOutcome::Refused("consent without identity".into()) };
            let mut wr = match w.idms.proxy_write(ct).await {
                Ok(w) => w,
                Err(e) => return AuthOutcome::Refused(format!("harness: {e:?}")),
            };
            match wr.check_oauth2_authorise_permit(ident, &consent_token, ct) {
                Ok(p) => match wr.commit() {
                    Ok(()) => AuthOutcome::Code { code: p.code, via_consent: true, consent_scopes: Some(scopes) },
                    Err(e) => AuthOutcome::Refused(format!("permit commit {e:?}")),
                },
                Err(e) => AuthOutcome::Refused(format!("permit {e:?}")),
            }
        }
        Ok(AuthoriseResponse::AuthenticationRequired { .. }) | Ok(AuthoriseResponse::ReauthenticationRequired { .. }) => AuthOutcome::NeedsAuth,
        Err(e) => AuthOutcome::Refused(format!("{e:?}")),
    }
}

#[derive(Debug, Clone, Copy, PartialEq, Eq, Hash, Serialize, Deserialize)]
pub enum ClientAuth {
    Right,
    /// the other registered client with its own (valid) credentials
    OtherClient,
    /// right client id, wrong secret (basic) / other client's id without secret (public)
    WrongSecret,
    NoAuth,
}

pub fn post_auth(w: &World, cfg: &Cfg, a: ClientAuth) -> ClientPostAuth {
    match a {
        ClientAuth::Right => ClientPostAuth { client_id: Some(CLIENT.to_string()), client_secret: if cfg.public { None } else { w.secret.clone() } },
        ClientAuth::OtherClient => ClientPostAuth { client_id: Some(OTHER_CLIENT.to_string()), client_secret: Some(w.other_secret.clone()) },
        ClientAuth::WrongSecret => ClientPostAuth { client_id: Some(CLIENT.to_string()), client_secret: Some("not-the-secret".to_string()) },
        ClientAuth::NoAuth => ClientPostAuth { client_id: None, client_secret: None },
    }
}

pub async fn token_request(w: &World, grant: GrantTypeReq, auth: ClientPostAuth, ct: Duration) -> Result<AccessTokenResponse, String> {
    let mut wr = w.idms.proxy_write(ct).await.map_err(|e| format!("harness: {e:?}"))?;
    let req = AccessTokenRequest { grant_type: grant, client_post_auth: auth };
    let cai = ClientAuthInfo::new(Source::Internal, None, None, None);
    match wr.check_oauth2_token_exchange(&cai, &req, ct) {
        Ok(r) => {
            wr.commit().map_err(|e| format!("commit {e:?}"))?;
            Ok(r)
        }
        Err(e) => {
            // a refused request may still have revoked a session (refresh token reuse): keep that
            let keep = matches!(e, Oauth2Error::InvalidGrant);
            if keep {
                let _ = wr.commit();
            }
            Err(format!("{e:?}"))
        }
    }
}

pub async fn introspect(w: &World, token: &str, ct: Duration) -> Result<AccessTokenIntrospectResponse, String> {
    let mut wr = w.idms.proxy_read().await.map_err(|e| format!("harness: {e:?}"))?;
    let req = AccessTokenIntrospectRequest { token: token.to_string(), token_type_hint: None, client_post_auth: ClientPostAuth { client_id: None, client_secret: None } };
    wr.check_oauth2_token_introspect(&req, ct).map_err(|e| format!("{e:?}"))
}

/// Ok(subject/claims present) when userinfo is released
pub async fn userinfo(w: &World, token: &str, ct: Duration) -> Result<(), String> {
    use std::str::FromStr;
    let jws = hooks::JwsCompact::from_str(token).map_err(|_| "not a jws".to_string())?;
    let mut wr = w.idms.proxy_read().await.map_err(|e| format!("harness: {e:?}"))?;
    wr.oauth2_openid_userinfo(CLIENT, &jws, ct).map(|_| ()).map_err(|e| format!("{e:?}"))
}
