//! Harness-side SCIM filter AST, generators, independent printers and the two implementations (C42).
use proptest::prelude::*;
use serde::{Deserialize, Serialize};
use serde_json::Value as J;

/// Comparison operators in the order used by `op` indices. 0 = `pr` (no value).
pub const OPS: [&str; 10] = ["pr", "eq", "ne", "co", "sw", "ew", "gt", "lt", "ge", "le"];

/// Scalar comparison value. Floats are kept as raw bits so replay files are exact.
#[derive(Debug, Clone, PartialEq, Eq, Hash, Serialize, Deserialize)]
pub enum SV {
    Str(String),
    Int(i64),
    Big(u64),
    FloatBits(u64),
    Bool(bool),
    Null,
}

impl SV {
    pub fn to_json(&self) -> J {
        match self {
            SV::Str(s) => J::String(s.clone()),
            SV::Int(i) => J::from(*i),
            SV::Big(u) => J::from(*u),
            SV::FloatBits(b) => {
                let f = f64::from_bits(*b);
                serde_json::Number::from_f64(f).map(J::Number).unwrap_or(J::Null)
            }
            SV::Bool(b) => J::Bool(*b),
            SV::Null => J::Null,
        }
    }
    pub fn kind(&self) -> &'static str {
        match self {
            SV::Str(_) => "value:string",
            SV::Int(_) | SV::Big(_) => "value:integer",
            SV::FloatBits(_) => "value:float",
            SV::Bool(_) => "value:bool",
            SV::Null => "value:null",
        }
    }
}

#[derive(Debug, Clone, PartialEq, Eq, Hash, Serialize, Deserialize)]
pub enum SC {
    Or(Box<SC>, Box<SC>),
    And(Box<SC>, Box<SC>),
    Not(Box<SC>),
    Leaf { op: u8, sub: String, val: SV },
}

#[derive(Debug, Clone, PartialEq, Eq, Hash, Serialize, Deserialize)]
pub enum SF {
    Or(Box<SF>, Box<SF>),
    And(Box<SF>, Box<SF>),
    Not(Box<SF>),
    Leaf { op: u8, attr: String, sub: Option<String>, val: SV },
    Complex(String, Box<SC>),
}

/// Bracket nesting of the *canonical printed form* (every node wrapped in one pair of
/// parentheses, `not` adds a second pair, `attr[` adds one bracket), computed on the AST.
pub fn brackets_c(c: &SC) -> usize {
    match c {
        SC::Leaf { .. } => 1,
        SC::Not(x) => 2 + brackets_c(x),
        SC::And(a, b) | SC::Or(a, b) => 1 + brackets_c(a).max(brackets_c(b)),
    }
}
pub fn brackets(f: &SF) -> usize {
    match f {
        SF::Leaf { .. } => 1,
        SF::Not(x) => 2 + brackets(x),
        SF::And(a, b) | SF::Or(a, b) => 1 + brackets(a).max(brackets(b)),
        SF::Complex(_, c) => 1 + brackets_c(c),
    }
}
/// Bracket nesting measured on a text (quotes respected) — used for free-form texts.
pub fn text_brackets(s: &str) -> usize {
    let mut depth = 0usize;
    let mut max = 0usize;
    let mut in_str = false;
    let mut esc = false;
    for ch in s.chars() {
        if in_str {
            if esc {
                esc = false;
            } else if ch == '\\' {
                esc = true;
            } else if ch == '"' {
                in_str = false;
            }
            continue;
        }
        match ch {
            '"' => in_str = true,
            '(' | '[' => {
                depth += 1;
                max = max.max(depth);
            }
            ')' | ']' => depth = depth.saturating_sub(1),
            _ => {}
        }
    }
    max
}

pub fn size(f: &SF) -> usize {
    match f {
        SF::Leaf { .. } => 1,
        SF::Not(x) => 1 + size(x),
        SF::And(a, b) | SF::Or(a, b) => 1 + size(a) + size(b),
        SF::Complex(_, c) => 1 + size_c(c),
    }
}
pub fn size_c(c: &SC) -> usize {
    match c {
        SC::Leaf { .. } => 1,
        SC::Not(x) => 1 + size_c(x),
        SC::And(a, b) | SC::Or(a, b) => 1 + size_c(a) + size_c(b),
    }
}

/// Labels describing what a tree exercises.
pub fn labels(f: &SF, out: &mut std::collections::BTreeSet<String>) {
    match f {
        SF::Leaf { op, sub, val, attr } => {
            out.insert(format!("op:{}", OPS[*op as usize % 10]));
            if sub.is_some() {
                out.insert("attrpath-with-subattr".into());
            }
            if *op % 10 != 0 {
                val_labels(val, out);
            }
            if is_keywordish(attr) {
                out.insert("attr-looks-like-keyword".into());
            }
        }
        SF::Not(x) => {
            out.insert("not".into());
            labels(x, out);
        }
        SF::And(a, b) => {
            out.insert("and".into());
            labels(a, out);
            labels(b, out);
        }
        SF::Or(a, b) => {
            out.insert("or".into());
            labels(a, out);
            labels(b, out);
        }
        SF::Complex(_, c) => {
            out.insert("complex".into());
            labels_c(c, out);
        }
    }
}
pub fn labels_c(c: &SC, out: &mut std::collections::BTreeSet<String>) {
    match c {
        SC::Leaf { op, val, .. } => {
            out.insert(format!("complex-op:{}", OPS[*op as usize % 10]));
            if *op % 10 != 0 {
                val_labels(val, out);
            }
        }
        SC::Not(x) => {
            out.insert("complex-not".into());
            labels_c(x, out);
        }
        SC::And(a, b) => {
            out.insert("complex-and".into());
            labels_c(a, out);
            labels_c(b, out);
        }
        SC::Or(a, b) => {
            out.insert("complex-or".into());
            labels_c(a, out);
            labels_c(b, out);
        }
    }
}
fn val_labels(v: &SV, out: &mut std::collections::BTreeSet<String>) {
    out.insert(v.kind().into());
    if let SV::Str(s) = v {
        if s.contains('"') {
            out.insert("string-has-quote".into());
        }
        if s.contains('\\') {
            out.insert("string-has-backslash".into());
        }
        if s.chars().any(|c| (c as u32) < 0x20 || c as u32 == 0x7f) {
            out.insert("string-has-control".into());
        }
        if s.chars().any(|c| (c as u32) > 0x7f) {
            out.insert("string-has-non-ascii".into());
        }
        if s.chars().any(|c| "()[] ".contains(c)) {
            out.insert("string-has-operator-char".into());
        }
    }
}
pub fn is_keywordish(a: &str) -> bool {
    matches!(
        a.to_lowercase().as_str(),
        "not" | "and" | "or" | "pr" | "eq" | "ne" | "co" | "sw" | "ew" | "gt" | "lt" | "ge" | "le" | "true" | "false" | "null"
    )
}

// ------------------------------------------------------------------ generators

const KNOWN_ATTRS: [&str; 14] = [
    "name", "mail", "displayName", "displayname", "uuid", "member", "memberof", "class", "emails", "userName", "gidnumber", "spn",
    "description", "Name",
];
/// Valid names that look like grammar keywords or start with one.
const KEYWORD_ATTRS: [&str; 14] = [
    "not", "and", "or", "pr", "eq", "note", "order", "android", "nota", "true", "null", "prx", "co", "Not",
];
const SUBS: [&str; 8] = ["primary", "type", "value", "Value", "display", "Type", "ref", "pr"];

pub fn arb_attr() -> BoxedStrategy<String> {
    prop_oneof![
        6 => proptest::sample::select(KNOWN_ATTRS.to_vec()).prop_map(|s| s.to_string()),
        1 => proptest::sample::select(KEYWORD_ATTRS.to_vec()).prop_map(|s| s.to_string()),
        // any valid SCIM attribute name: ALPHA *(ALPHA / DIGIT / "-" / "_")
        3 => "[a-zA-Z][a-zA-Z0-9_-]{0,10}".prop_map(|s| s),
    ]
    .boxed()
}
pub fn arb_sub() -> BoxedStrategy<String> {
    prop_oneof![
        5 => proptest::sample::select(SUBS.to_vec()).prop_map(|s| s.to_string()),
        2 => "[a-zA-Z][a-zA-Z0-9_-]{0,8}".prop_map(|s| s),
    ]
    .boxed()
}

fn arb_char() -> BoxedStrategy<char> {
    prop_oneof![
        6 => proptest::sample::select(vec!['a', 'b', 'Z', '0', '9', ' ', '.', '@', '-', '_', ':', '/', '*', '=', '\'']),
        4 => proptest::sample::select(vec!['"', '\\', '(', ')', '[', ']', '\t', '\n', '\r', '{', '}', ',']),
        2 => proptest::sample::select(vec!['\u{0}', '\u{1}', '\u{8}', '\u{c}', '\u{1b}', '\u{1f}', '\u{7f}', '\u{80}', '\u{9f}']),
        2 => proptest::sample::select(vec!['é', 'ß', '漢', '\u{2028}', '\u{2029}', '\u{feff}', '\u{200b}', '😀', '\u{10ffff}', '\u{fffd}', 'İ', 'ǅ']),
        1 => any::<char>(),
    ]
    .boxed()
}
pub fn arb_string() -> BoxedStrategy<String> {
    prop_oneof![
        3 => proptest::collection::vec(arb_char(), 0..10).prop_map(|v| v.into_iter().collect::<String>()),
        1 => proptest::sample::select(vec![
            "", "true", "null", "1", "and", " or ", "a\" or b pr or c eq \"", "\\", "\\\"", "\"", "\\u0041", "a\\", ")", "x y", "not (a pr)",
            "\\\\\"", "]", "a eq \"b\"",
        ])
        .prop_map(|s| s.to_string()),
    ]
    .boxed()
}
pub fn arb_float_bits() -> BoxedStrategy<u64> {
    prop_oneof![
        // arbitrary finite doubles (all 17 significant digits in play)
        4 => any::<u64>().prop_map(|b| {
            let f = f64::from_bits(b);
            if f.is_finite() { b } else { (b & !(0x7ffu64 << 52)) | (0x3ffu64 << 52) }
        }),
        // short decimals
        3 => (any::<i32>(), 0u32..12).prop_map(|(m, e)| ((m as f64) / 10f64.powi(e as i32)).to_bits()),
        // boundaries of the exponent-format switch and of the range
        2 => proptest::sample::select(vec![
            0.0f64, -0.0, 1.0, -1.0, 0.1, 0.3, 1e15, 1e16, 1e17, 1e21, 1e22, 1e23, 1e-5, 1e-6, 1e-7, 5e-324, 2.2250738585072014e-308,
            2.225073858507201e-308, f64::MAX, f64::MIN, 9007199254740993.0, 0.30000000000000004, 123456789.12345679, 1.7976931348623157e308,
            4.35, 8.41e21, 2.0e-308, 6.0221409e23, 1.5e300, 3.141592653589793,
        ])
        .prop_map(|f| f.to_bits()),
        // integral doubles near u64/i64 bounds (print as "N.0")
        1 => any::<i64>().prop_map(|i| (i as f64).to_bits()),
    ]
    .boxed()
}
pub fn arb_value() -> BoxedStrategy<SV> {
    prop_oneof![
        8 => arb_string().prop_map(SV::Str),
        2 => prop_oneof![
            any::<i64>(),
            proptest::sample::select(vec![0i64, 1, -1, i64::MAX, i64::MIN, 1 << 53, (1 << 53) + 1, 4294967296, -4294967297]),
            (-1000i64..1000),
        ]
        .prop_map(SV::Int),
        1 => prop_oneof![Just(u64::MAX), Just(i64::MAX as u64 + 1), ((i64::MAX as u64 + 1)..=u64::MAX)].prop_map(SV::Big),
        3 => arb_float_bits().prop_map(SV::FloatBits),
        1 => any::<bool>().prop_map(SV::Bool),
        1 => Just(SV::Null),
    ]
    .boxed()
}

pub fn arb_cleaf() -> BoxedStrategy<SC> {
    (0u8..10, arb_sub(), arb_value()).prop_map(|(op, sub, val)| SC::Leaf { op, sub, val }).boxed()
}
pub fn arb_complex(depth: u32) -> BoxedStrategy<SC> {
    arb_cleaf()
        .prop_recursive(depth, 24, 2, |inner| {
            prop_oneof![
                3 => (inner.clone(), inner.clone()).prop_map(|(a, b)| SC::And(Box::new(a), Box::new(b))),
                3 => (inner.clone(), inner.clone()).prop_map(|(a, b)| SC::Or(Box::new(a), Box::new(b))),
                2 => inner.prop_map(|a| SC::Not(Box::new(a))),
            ]
        })
        .boxed()
}
pub fn arb_leaf() -> BoxedStrategy<SF> {
    prop_oneof![
        6 => (0u8..10, arb_attr(), proptest::option::weighted(0.35, arb_sub()), arb_value())
            .prop_map(|(op, attr, sub, val)| SF::Leaf { op, attr, sub, val }),
        1 => (arb_attr(), arb_complex(3)).prop_map(|(a, c)| SF::Complex(a, Box::new(c))),
    ]
    .boxed()
}
pub fn arb_filter(depth: u32) -> BoxedStrategy<SF> {
    arb_leaf()
        .prop_recursive(depth, 48, 2, |inner| {
            prop_oneof![
                3 => (inner.clone(), inner.clone()).prop_map(|(a, b)| SF::And(Box::new(a), Box::new(b))),
                3 => (inner.clone(), inner.clone()).prop_map(|(a, b)| SF::Or(Box::new(a), Box::new(b))),
                2 => inner.prop_map(|a| SF::Not(Box::new(a))),
            ]
        })
        .boxed()
}

/// A chain recipe reaching a chosen bracket nesting: wrappers applied innermost-first.
#[derive(Debug, Clone, PartialEq, Eq, Hash, Serialize, Deserialize)]
pub struct Chain {
    /// wrapper kinds, applied from the inside out: 0 Not, 1 And(left=chain), 2 And(right=chain),
    /// 3 Or(left=chain), 4 Or(right=chain)
    pub wraps: Vec<u8>,
    /// when set, the innermost element is `attr[complex chain]` with this many complex wrappers
    pub complex_wraps: Option<Vec<u8>>,
    pub leaf: SF,
    pub cleaf: SC,
    pub side: SF,
}

impl Chain {
    pub fn build(&self) -> SF {
        let mut cur = match &self.complex_wraps {
            Some(cw) => {
                let mut c = self.cleaf.clone();
                for k in cw {
                    c = match k % 5 {
                        0 => SC::Not(Box::new(c)),
                        1 => SC::And(Box::new(c), Box::new(self.cleaf.clone())),
                        2 => SC::And(Box::new(self.cleaf.clone()), Box::new(c)),
                        3 => SC::Or(Box::new(c), Box::new(self.cleaf.clone())),
                        _ => SC::Or(Box::new(self.cleaf.clone()), Box::new(c)),
                    };
                }
                SF::Complex("mail".into(), Box::new(c))
            }
            None => self.leaf.clone(),
        };
        for k in &self.wraps {
            cur = match k % 5 {
                0 => SF::Not(Box::new(cur)),
                1 => SF::And(Box::new(cur), Box::new(self.side.clone())),
                2 => SF::And(Box::new(self.side.clone()), Box::new(cur)),
                3 => SF::Or(Box::new(cur), Box::new(self.side.clone())),
                _ => SF::Or(Box::new(self.side.clone()), Box::new(cur)),
            };
        }
        cur
    }
}

/// Chains whose bracket nesting lands in `lo..=hi` (by construction, trimmed to fit).
pub fn arb_chain(lo: usize, hi: usize) -> BoxedStrategy<Chain> {
    (
        lo..=hi,
        proptest::collection::vec(0u8..5, hi + 2),
        proptest::option::weighted(0.5, (0usize..=100, proptest::collection::vec(0u8..5, hi + 2))),
        (0u8..10, arb_attr(), arb_value()),
        arb_cleaf(),
        0u8..3,
    )
        .prop_map(|(target, wraps, cplx, (op, attr, val), cleaf, notw)| {
            // weight NOT by rewriting some wrappers (notw = how many of 3 residues map to NOT)
            let wraps: Vec<u8> = wraps.into_iter().map(|k| if k < notw { 0 } else { k }).collect();
            let leaf = SF::Leaf { op, attr, sub: None, val };
            let side = SF::Leaf { op: 0, attr: "name".into(), sub: None, val: SV::Null };
            let cost = |k: u8| if k % 5 == 0 { 2usize } else { 1 };
            let mut have;
            let complex_wraps = match cplx {
                Some((pct, cw)) => {
                    // spend pct% of the budget inside the brackets
                    let budget = (target.saturating_sub(2)) * pct / 100;
                    let mut used = 0;
                    let mut out = Vec::new();
                    for k in cw {
                        if used + cost(k) > budget {
                            break;
                        }
                        used += cost(k);
                        out.push(k);
                    }
                    have = 1 + 1 + used; // '[' + complex leaf + wrappers
                    Some(out)
                }
                None => {
                    have = 1;
                    None
                }
            };
            let mut outw = Vec::new();
            for k in wraps {
                if have >= target {
                    break;
                }
                let k = if have + cost(k) > target { 1 } else { k };
                have += cost(k);
                outw.push(k);
            }
            Chain { wraps: outw, complex_wraps, leaf, cleaf, side }
        })
        .boxed()
}

// ------------------------------------------------------------------ independent printers

fn sep(seps: &[u8], i: &mut usize) -> &'static str {
    let k = seps.get(*i % seps.len().max(1)).copied().unwrap_or(0);
    *i += 1;
    match k % 6 {
        0 | 1 | 2 => " ",
        3 => "  ",
        4 => "\t",
        _ => "\n",
    }
}

pub fn leaf_text(op: u8, path: &str, val: &SV, seps: &[u8], i: &mut usize) -> String {
    let o = OPS[op as usize % 10];
    if op % 10 == 0 {
        format!("{path}{}pr", sep(seps, i))
    } else {
        let s1 = sep(seps, i);
        let s2 = sep(seps, i);
        format!("{path}{s1}{o}{s2}{}", json_text(val))
    }
}

/// JSON text of a scalar, produced here (not by the implementation's Display).
pub fn json_text(v: &SV) -> String {
    match v {
        SV::Str(s) => {
            let mut o = String::from("\"");
            for c in s.chars() {
                match c {
                    '"' => o.push_str("\\\""),
                    '\\' => o.push_str("\\\\"),
                    '\n' => o.push_str("\\n"),
                    '\r' => o.push_str("\\r"),
                    '\t' => o.push_str("\\t"),
                    c if (c as u32) < 0x20 => o.push_str(&format!("\\u{:04x}", c as u32)),
                    c => o.push(c),
                }
            }
            o.push('"');
            o
        }
        SV::Int(i) => i.to_string(),
        SV::Big(u) => u.to_string(),
        SV::FloatBits(_) => v.to_json().to_string(),
        SV::Bool(b) => b.to_string(),
        SV::Null => "null".into(),
    }
}

/// Minimal-parenthesis text: an AND operand of OR is NOT parenthesised (that is the precedence
/// under test); an OR operand of AND is; an operand with the same connective as its parent is
/// parenthesised (so the expectation does not depend on associativity). `extra` adds redundant
/// parentheses around some atoms.
pub fn min_text_c(c: &SC, seps: &[u8], i: &mut usize) -> String {
    match c {
        SC::Leaf { op, sub, val } => leaf_text(*op, sub, val, seps, i),
        SC::Not(x) => format!("not{}({})", sep(seps, i), min_text_c(x, seps, i)),
        SC::And(a, b) => {
            let l = match **a {
                SC::Or(..) | SC::And(..) => format!("({})", min_text_c(a, seps, i)),
                _ => min_text_c(a, seps, i),
            };
            let s1 = sep(seps, i);
            let s2 = sep(seps, i);
            let r = match **b {
                SC::Or(..) | SC::And(..) => format!("({})", min_text_c(b, seps, i)),
                _ => min_text_c(b, seps, i),
            };
            format!("{l}{s1}and{s2}{r}")
        }
        SC::Or(a, b) => {
            let l = match **a {
                SC::Or(..) => format!("({})", min_text_c(a, seps, i)),
                _ => min_text_c(a, seps, i),
            };
            let s1 = sep(seps, i);
            let s2 = sep(seps, i);
            let r = match **b {
                SC::Or(..) => format!("({})", min_text_c(b, seps, i)),
                _ => min_text_c(b, seps, i),
            };
            format!("{l}{s1}or{s2}{r}")
        }
    }
}
pub fn min_text(f: &SF, seps: &[u8], i: &mut usize) -> String {
    match f {
        SF::Leaf { op, attr, sub, val } => {
            let path = match sub {
                Some(s) => format!("{attr}.{s}"),
                None => attr.clone(),
            };
            leaf_text(*op, &path, val, seps, i)
        }
        SF::Complex(a, c) => format!("{a}[{}]", min_text_c(c, seps, i)),
        SF::Not(x) => format!("not{}({})", sep(seps, i), min_text(x, seps, i)),
        SF::And(a, b) => {
            let l = match **a {
                SF::Or(..) | SF::And(..) => format!("({})", min_text(a, seps, i)),
                _ => min_text(a, seps, i),
            };
            let s1 = sep(seps, i);
            let s2 = sep(seps, i);
            let r = match **b {
                SF::Or(..) | SF::And(..) => format!("({})", min_text(b, seps, i)),
                _ => min_text(b, seps, i),
            };
            format!("{l}{s1}and{s2}{r}")
        }
        SF::Or(a, b) => {
            let l = match **a {
                SF::Or(..) => format!("({})", min_text(a, seps, i)),
                _ => min_text(a, seps, i),
            };
            let s1 = sep(seps, i);
            let s2 = sep(seps, i);
            let r = match **b {
                SF::Or(..) => format!("({})", min_text(b, seps, i)),
                _ => min_text(b, seps, i),
            };
            format!("{l}{s1}or{s2}{r}")
        }
    }
}

/// Does the minimal text contain an AND group directly under OR (without parentheses)?
pub fn has_and_under_or(f: &SF) -> bool {
    match f {
        SF::Or(a, b) => matches!(**a, SF::And(..)) || matches!(**b, SF::And(..)) || has_and_under_or(a) || has_and_under_or(b),
        SF::And(a, b) => has_and_under_or(a) || has_and_under_or(b),
        SF::Not(x) => has_and_under_or(x),
        SF::Complex(_, c) => has_and_under_or_c(c),
        SF::Leaf { .. } => false,
    }
}
pub fn has_and_under_or_c(c: &SC) -> bool {
    match c {
        SC::Or(a, b) => matches!(**a, SC::And(..)) || matches!(**b, SC::And(..)) || has_and_under_or_c(a) || has_and_under_or_c(b),
        SC::And(a, b) => has_and_under_or_c(a) || has_and_under_or_c(b),
        SC::Not(x) => has_and_under_or_c(x),
        SC::Leaf { .. } => false,
    }
}

// ------------------------------------------------------------------ the two implementations

/// What a check needs from an implementation of the SCIM filter text format.
pub trait Impl {
    type F: PartialEq + std::fmt::Debug;
    type C: PartialEq + std::fmt::Debug;
    const NAME: &'static str;
    fn build(f: &SF) -> Self::F;
    fn build_c(c: &SC) -> Self::C;
    fn print(f: &Self::F) -> String;
    fn print_c(c: &Self::C) -> String;
    fn parse(s: &str) -> Result<Self::F, String>;
    fn parse_c(s: &str) -> Result<Self::C, String>;
    /// Flatten `x or y or ...` at the top, and `a and b and ...` below it; `None` when an OR is
    /// found *inside* an AND group (precedence inverted).
    fn or_of_ands(f: Self::F) -> Option<Vec<Vec<Self::F>>>;
    fn or_of_ands_c(c: Self::C) -> Option<Vec<Vec<Self::C>>>;
    /// every comparison value scalar? and bracket nesting of the canonical print
    fn scalar_only(f: &Self::F) -> bool;
}

macro_rules! scim_impl {
    ($ty:ident, $name:expr, $F:ty, $C:ty, $path:expr, $attr:expr, $sub:expr) => {
        pub struct $ty;
        impl $ty {
            fn leaf(op: u8, attr: &str, sub: Option<&str>, val: &SV) -> $F {
                type F = $F;
                let p = $path(attr, sub);
                let v = val.to_json();
                match op % 10 {
                    0 => F::Present(p),
                    1 => F::Equal(p, v),
                    2 => F::NotEqual(p, v),
                    3 => F::Contains(p, v),
                    4 => F::StartsWith(p, v),
                    5 => F::EndsWith(p, v),
                    6 => F::Greater(p, v),
                    7 => F::Less(p, v),
                    8 => F::GreaterOrEqual(p, v),
                    _ => F::LessOrEqual(p, v),
                }
            }
            fn cleaf(op: u8, sub: &str, val: &SV) -> $C {
                type C = $C;
                let p = $sub(sub);
                let v = val.to_json();
                match op % 10 {
                    0 => C::Present(p),
                    1 => C::Equal(p, v),
                    2 => C::NotEqual(p, v),
                    3 => C::Contains(p, v),
                    4 => C::StartsWith(p, v),
                    5 => C::EndsWith(p, v),
                    6 => C::Greater(p, v),
                    7 => C::Less(p, v),
                    8 => C::GreaterOrEqual(p, v),
                    _ => C::LessOrEqual(p, v),
                }
            }
            fn flat_or(f: $F, out: &mut Vec<$F>) {
                type F = $F;
                match f {
                    F::Or(a, b) => {
                        Self::flat_or(*a, out);
                        Self::flat_or(*b, out);
                    }
                    other => out.push(other),
                }
            }
            fn flat_and(f: $F, out: &mut Vec<$F>) -> bool {
                type F = $F;
                match f {
                    F::And(a, b) => Self::flat_and(*a, out) && Self::flat_and(*b, out),
                    F::Or(..) => false,
                    other => {
                        out.push(other);
                        true
                    }
                }
            }
            fn flat_or_c(f: $C, out: &mut Vec<$C>) {
                type C = $C;
                match f {
                    C::Or(a, b) => {
                        Self::flat_or_c(*a, out);
                        Self::flat_or_c(*b, out);
                    }
                    other => out.push(other),
                }
            }
            fn flat_and_c(f: $C, out: &mut Vec<$C>) -> bool {
                type C = $C;
                match f {
                    C::And(a, b) => Self::flat_and_c(*a, out) && Self::flat_and_c(*b, out),
                    C::Or(..) => false,
                    other => {
                        out.push(other);
                        true
                    }
                }
            }
            fn scalar(v: &J) -> bool {
                !matches!(v, J::Array(_) | J::Object(_))
            }
            fn scalar_c(c: &$C) -> bool {
                type C = $C;
                match c {
                    C::Or(a, b) | C::And(a, b) => Self::scalar_c(a) && Self::scalar_c(b),
                    C::Not(a) => Self::scalar_c(a),
                    C::Present(_) => true,
                    C::Equal(_, v)
                    | C::NotEqual(_, v)
                    | C::Contains(_, v)
                    | C::StartsWith(_, v)
                    | C::EndsWith(_, v)
                    | C::Greater(_, v)
                    | C::Less(_, v)
                    | C::GreaterOrEqual(_, v)
                    | C::LessOrEqual(_, v) => Self::scalar(v),
                }
            }
        }
        impl Impl for $ty {
            type F = $F;
            type C = $C;
            const NAME: &'static str = $name;
            fn build(f: &SF) -> $F {
                type F = $F;
                match f {
                    SF::Or(a, b) => F::Or(Box::new(Self::build(a)), Box::new(Self::build(b))),
                    SF::And(a, b) => F::And(Box::new(Self::build(a)), Box::new(Self::build(b))),
                    SF::Not(a) => F::Not(Box::new(Self::build(a))),
                    SF::Leaf { op, attr, sub, val } => Self::leaf(*op, attr, sub.as_deref(), val),
                    SF::Complex(a, c) => F::Complex($attr(a.as_str()), Box::new(Self::build_c(c))),
                }
            }
            fn build_c(c: &SC) -> $C {
                type C = $C;
                match c {
                    SC::Or(a, b) => C::Or(Box::new(Self::build_c(a)), Box::new(Self::build_c(b))),
                    SC::And(a, b) => C::And(Box::new(Self::build_c(a)), Box::new(Self::build_c(b))),
                    SC::Not(a) => C::Not(Box::new(Self::build_c(a))),
                    SC::Leaf { op, sub, val } => Self::cleaf(*op, sub, val),
                }
            }
            fn print(f: &$F) -> String {
                f.to_string()
            }
            fn print_c(c: &$C) -> String {
                c.to_string()
            }
            fn parse(s: &str) -> Result<$F, String> {
                <$F as std::str::FromStr>::from_str(s).map_err(|e| e.to_string())
            }
            fn parse_c(s: &str) -> Result<$C, String> {
                <$C as std::str::FromStr>::from_str(s).map_err(|e| e.to_string())
            }
            fn or_of_ands(f: $F) -> Option<Vec<Vec<$F>>> {
                let mut ors = Vec::new();
                Self::flat_or(f, &mut ors);
                let mut out = Vec::new();
                for o in ors {
                    let mut ands = Vec::new();
                    if !Self::flat_and(o, &mut ands) {
                        return None;
                    }
                    out.push(ands);
                }
                Some(out)
            }
            fn or_of_ands_c(f: $C) -> Option<Vec<Vec<$C>>> {
                let mut ors = Vec::new();
                Self::flat_or_c(f, &mut ors);
                let mut out = Vec::new();
                for o in ors {
                    let mut ands = Vec::new();
                    if !Self::flat_and_c(o, &mut ands) {
                        return None;
                    }
                    out.push(ands);
                }
                Some(out)
            }
            fn scalar_only(f: &$F) -> bool {
                type F = $F;
                match f {
                    F::Or(a, b) | F::And(a, b) => Self::scalar_only(a) && Self::scalar_only(b),
                    F::Not(a) => Self::scalar_only(a),
                    F::Present(_) => true,
                    F::Equal(_, v)
                    | F::NotEqual(_, v)
                    | F::Contains(_, v)
                    | F::StartsWith(_, v)
                    | F::EndsWith(_, v)
                    | F::Greater(_, v)
                    | F::Less(_, v)
                    | F::GreaterOrEqual(_, v)
                    | F::LessOrEqual(_, v) => Self::scalar(v),
                    F::Complex(_, c) => Self::scalar_c(c),
                }
            }
        }
    };
}

use kanidm_proto::attribute::{Attribute, SubAttribute};
scim_impl!(
    KanidmProto,
    "kanidm_proto::scim_v1",
    kanidm_proto::scim_v1::ScimFilter,
    kanidm_proto::scim_v1::ScimComplexFilter,
    |a: &str, s: Option<&str>| kanidm_proto::scim_v1::AttrPath {
        a: Attribute::from(a),
        s: s.map(SubAttribute::from),
    },
    |a: &str| Attribute::from(a),
    |s: &str| SubAttribute::from(s)
);
scim_impl!(
    ScimProto,
    "scim_proto::filter",
    scim_proto::filter::ScimFilter,
    scim_proto::filter::ScimComplexFilter,
    // fields are private: build through serde (not through the parser under judgement)
    |a: &str, s: Option<&str>| serde_json::from_value::<scim_proto::filter::AttrPath>(serde_json::json!({"a": a, "s": s})).expect("attrpath"),
    |a: &str| a.to_string(),
    |s: &str| s.to_string()
);
