//! Filter AST (serialisable, shrinkable), its translation to kanidm filters, and an independent
//! reference evaluator (own recursion; NOT = complement; any-value semantics).
use kanidmd_lib::entry::{Entry, EntryCommitted, EntrySealed};
use kanidmd_lib::prelude::*;
use kanidmd_lib::value::PartialValue;
use kanidmd_lib::verif_hooks::export::filter::HFC;
use proptest::prelude::*;
use serde::{Deserialize, Serialize};
use std::collections::{BTreeMap, BTreeSet};

#[derive(Debug, Clone, PartialEq, Eq, Hash, Serialize, Deserialize)]
pub enum F {
    Eq(String, String),
    Cnt(String, String),
    Stw(String, String),
    Enw(String, String),
    Pres(String),
    Lt(String, String),
    And(Vec<F>),
    Or(Vec<F>),
    Not(Box<F>),
    SelfUuid,
    Invalid(String),
}

/// Matching semantics per attribute syntax (written from the documented behaviour:
/// names/classes are case-insensitive identifiers, free text is matched exactly for equality and
/// case-insensitively for substrings, numbers and uuids compare by value).
#[derive(Debug, Clone, Copy, PartialEq, Eq)]
pub enum Syn {
    Iname,
    Iutf8,
    Utf8,
    Email,
    U32,
    Uuid,
    Refer,
}

pub fn syntax_of(attr: &str) -> Syn {
    match attr {
        "name" => Syn::Iname,
        "class" | "domain_name" => Syn::Iutf8,
        "description" | "displayname" | "legalname" => Syn::Utf8,
        "mail" => Syn::Email,
        "gidnumber" => Syn::U32,
        "uuid" => Syn::Uuid,
        "member" | "memberof" | "directmemberof" | "dynmember" | "entry_managed_by" => Syn::Refer,
        _ => Syn::Utf8,
    }
}

pub fn attr_of(a: &str) -> Attribute {
    Attribute::from(a)
}

pub fn pv_of(attr: &str, v: &str) -> PartialValue {
    match syntax_of(attr) {
        Syn::Iname => PartialValue::new_iname(v),
        Syn::Iutf8 => PartialValue::new_iutf8(v),
        Syn::Utf8 => PartialValue::new_utf8s(v),
        Syn::Email => PartialValue::EmailAddress(v.to_string()),
        Syn::U32 => PartialValue::Uint32(v.parse().unwrap_or(0)),
        Syn::Uuid => PartialValue::Uuid(Uuid::parse_str(v).unwrap_or(Uuid::nil())),
        Syn::Refer => PartialValue::Refer(Uuid::parse_str(v).unwrap_or(Uuid::nil())),
    }
}

impl F {
    pub fn to_hfc(&self) -> HFC {
        match self {
            F::Eq(a, v) => HFC::Eq(attr_of(a), pv_of(a, v)),
            F::Cnt(a, v) => HFC::Cnt(attr_of(a), pv_of(a, v)),
            F::Stw(a, v) => HFC::Stw(attr_of(a), pv_of(a, v)),
            F::Enw(a, v) => HFC::Enw(attr_of(a), pv_of(a, v)),
            F::Pres(a) => HFC::Pres(attr_of(a)),
            F::Lt(a, v) => HFC::LessThan(attr_of(a), pv_of(a, v)),
            F::And(l) => HFC::And(l.iter().map(|f| f.to_hfc()).collect()),
            F::Or(l) => HFC::Or(l.iter().map(|f| f.to_hfc()).collect()),
            F::Not(f) => HFC::AndNot(Box::new(f.to_hfc())),
            F::SelfUuid => HFC::SelfUuid,
            F::Invalid(a) => HFC::Invalid(attr_of(a)),
        }
    }
    /// The public short form (no Stw/Enw: mapped to Cnt is NOT done; returns None if not expressible).
    pub fn to_fc(&self) -> Option<FC> {
        Some(match self {
            F::Eq(a, v) => FC::Eq(attr_of(a), pv_of(a, v)),
            F::Cnt(a, v) => FC::Cnt(attr_of(a), pv_of(a, v)),
            F::Stw(..) | F::Enw(..) => return None,
            F::Pres(a) => FC::Pres(attr_of(a)),
            F::Lt(a, v) => FC::LessThan(attr_of(a), pv_of(a, v)),
            F::And(l) => FC::And(l.iter().map(|f| f.to_fc()).collect::<Option<Vec<_>>>()?),
            F::Or(l) => FC::Or(l.iter().map(|f| f.to_fc()).collect::<Option<Vec<_>>>()?),
            F::Not(f) => FC::AndNot(Box::new(f.to_fc()?)),
            F::SelfUuid => FC::SelfUuid,
            F::Invalid(a) => FC::Invalid(attr_of(a)),
        })
    }
    pub fn depth(&self) -> usize {
        match self {
            F::And(l) | F::Or(l) => 1 + l.iter().map(|f| f.depth()).max().unwrap_or(0),
            F::Not(f) => 1 + f.depth(),
            _ => 1,
        }
    }
    pub fn has_connective(&self) -> bool {
        matches!(self, F::And(_) | F::Or(_) | F::Not(_))
    }
    pub fn attrs(&self, out: &mut BTreeSet<String>) {
        match self {
            F::Eq(a, _) | F::Cnt(a, _) | F::Stw(a, _) | F::Enw(a, _) | F::Lt(a, _) | F::Pres(a) | F::Invalid(a) => {
                out.insert(a.clone());
            }
            F::And(l) | F::Or(l) => l.iter().for_each(|f| f.attrs(out)),
            F::Not(f) => f.attrs(out),
            F::SelfUuid => {
                out.insert("uuid".into());
            }
        }
    }
    /// A NOT that is not a direct member of an AND having at least one positive (non-NOT) member.
    /// (Textual form of the C01 known-finding signature; the checks compute the authoritative
    /// classification on the server's own optimised tree.)
    pub fn has_isolated_not(&self) -> bool {
        fn walk(f: &F, parent_ok: bool) -> bool {
            match f {
                F::Not(inner) => !parent_ok || walk(inner, false),
                F::And(l) => {
                    let has_pos = l.iter().any(|x| !matches!(x, F::Not(_)));
                    l.iter().any(|x| walk(x, has_pos))
                }
                F::Or(l) => l.iter().any(|x| walk(x, false)),
                _ => false,
            }
        }
        walk(self, false)
    }
    pub fn render(&self) -> String {
        match self {
            F::Eq(a, v) => format!("{a}={v}"),
            F::Cnt(a, v) => format!("{a}=*{v}*"),
            F::Stw(a, v) => format!("{a}={v}*"),
            F::Enw(a, v) => format!("{a}=*{v}"),
            F::Pres(a) => format!("{a}=*"),
            F::Lt(a, v) => format!("{a}<{v}"),
            F::And(l) => format!("(&{})", l.iter().map(|f| format!("({})", f.render())).collect::<String>()),
            F::Or(l) => format!("(|{})", l.iter().map(|f| format!("({})", f.render())).collect::<String>()),
            F::Not(f) => format!("!({})", f.render()),
            F::SelfUuid => "self".into(),
            F::Invalid(a) => format!("invalid:{a}"),
        }
    }
}

/// Model entry: attribute -> values in proto-string form (names lower-case as stored, numbers
/// decimal, uuids hyphenated lower-case).
#[derive(Debug, Clone, PartialEq, Eq, Serialize, Deserialize, Default)]
pub struct MEntry {
    pub uuid: Uuid,
    pub attrs: BTreeMap<String, BTreeSet<String>>,
}

impl MEntry {
    pub fn from_entry(e: &Entry<EntrySealed, EntryCommitted>) -> Self {
        let mut attrs = BTreeMap::new();
        for (a, vs) in e.get_ava_iter() {
            attrs.insert(a.to_string(), vs.to_proto_string_clone_iter().collect());
        }
        MEntry {
            uuid: e.get_uuid(),
            attrs,
        }
    }
    pub fn get(&self, a: &str) -> Option<&BTreeSet<String>> {
        self.attrs.get(a)
    }
}

fn leaf_eq(syn: Syn, stored: &str, asked: &str) -> bool {
    match syn {
        Syn::Iname | Syn::Iutf8 => stored.to_lowercase() == asked.to_lowercase(),
        Syn::Utf8 | Syn::Email => stored == asked,
        Syn::U32 => match (stored.parse::<u32>(), asked.parse::<u32>()) {
            (Ok(a), Ok(b)) => a == b,
            _ => false,
        },
        Syn::Uuid | Syn::Refer => match (Uuid::parse_str(stored), Uuid::parse_str(asked)) {
            (Ok(a), Ok(b)) => a == b,
            _ => false,
        },
    }
}

#[derive(Clone, Copy)]
enum SubKind {
    Cnt,
    Stw,
    Enw,
}

fn leaf_sub(syn: Syn, stored: &str, asked: &str, k: SubKind) -> bool {
    match syn {
        Syn::Iname | Syn::Iutf8 | Syn::Utf8 | Syn::Email => {
            let s = stored.to_lowercase();
            let a = asked.to_lowercase();
            match k {
                SubKind::Cnt => s.contains(&a),
                SubKind::Stw => s.starts_with(&a),
                SubKind::Enw => s.ends_with(&a),
            }
        }
        // substring matching is defined for textual syntaxes only
        Syn::U32 | Syn::Uuid | Syn::Refer => false,
    }
}

fn leaf_lt(syn: Syn, stored: &str, asked: &str) -> bool {
    match syn {
        Syn::U32 => match (stored.parse::<u32>(), asked.parse::<u32>()) {
            (Ok(a), Ok(b)) => a < b,
            _ => false,
        },
        Syn::Uuid | Syn::Refer => match (Uuid::parse_str(stored), Uuid::parse_str(asked)) {
            (Ok(a), Ok(b)) => a < b,
            _ => false,
        },
        // ordering is defined for numeric / uuid / reference syntaxes only
        _ => false,
    }
}

/// Independent evaluator. `self_uuid` resolves `SelfUuid` (None = never matches).
pub fn eval(f: &F, e: &MEntry, self_uuid: Option<Uuid>) -> bool {
    match f {
        F::Eq(a, v) => e
            .get(a)
            .map(|vs| vs.iter().any(|s| leaf_eq(syntax_of(a), s, v)))
            .unwrap_or(false),
        F::Cnt(a, v) => e
            .get(a)
            .map(|vs| vs.iter().any(|s| leaf_sub(syntax_of(a), s, v, SubKind::Cnt)))
            .unwrap_or(false),
        F::Stw(a, v) => e
            .get(a)
            .map(|vs| vs.iter().any(|s| leaf_sub(syntax_of(a), s, v, SubKind::Stw)))
            .unwrap_or(false),
        F::Enw(a, v) => e
            .get(a)
            .map(|vs| vs.iter().any(|s| leaf_sub(syntax_of(a), s, v, SubKind::Enw)))
            .unwrap_or(false),
        F::Pres(a) => e.get(a).map(|vs| !vs.is_empty()).unwrap_or(false),
        F::Lt(a, v) => e
            .get(a)
            .map(|vs| vs.iter().any(|s| leaf_lt(syntax_of(a), s, v)))
            .unwrap_or(false),
        F::And(l) => l.iter().all(|x| eval(x, e, self_uuid)),
        F::Or(l) => l.iter().any(|x| eval(x, e, self_uuid)),
        F::Not(x) => !eval(x, e, self_uuid),
        F::SelfUuid => self_uuid.map(|u| u == e.uuid).unwrap_or(false),
        F::Invalid(_) => false,
    }
}

/// Alphabet for filter generation: (attribute, candidate values).
#[derive(Debug, Clone)]
pub struct Alphabet {
    pub attrs: Vec<(String, Vec<String>)>,
    pub stw_enw: bool,
    pub self_uuid: bool,
    pub invalid: bool,
    /// Empty AND/OR groups. Schema validation rejects them (`SchemaError::EmptyFilter`), so they
    /// are not valid search filters; only checks of the rewriting step itself turn this on.
    pub empty_groups: bool,
}

impl Alphabet {
    pub fn new(attrs: &[(&str, &[&str])]) -> Self {
        Alphabet {
            attrs: attrs
                .iter()
                .map(|(a, vs)| (a.to_string(), vs.iter().map(|v| v.to_string()).collect()))
                .collect(),
            stw_enw: true,
            self_uuid: false,
            invalid: true,
            empty_groups: false,
        }
    }
}

pub fn arb_leaf(al: &Alphabet) -> BoxedStrategy<F> {
    let pairs: Vec<(String, String)> = al
        .attrs
        .iter()
        .flat_map(|(a, vs)| vs.iter().map(move |v| (a.clone(), v.clone())))
        .collect();
    let attrs: Vec<String> = al.attrs.iter().map(|(a, _)| a.clone()).collect();
    let pair = proptest::sample::select(pairs);
    let attr = proptest::sample::select(attrs);
    let mut opts: Vec<(u32, BoxedStrategy<F>)> = vec![
        (6, pair.clone().prop_map(|(a, v)| F::Eq(a, v)).boxed()),
        (2, attr.clone().prop_map(F::Pres).boxed()),
        (
            3,
            (pair.clone(), 0usize..4, 1usize..4)
                .prop_map(|((a, v), start, len)| {
                    // substring of the candidate value (char-boundary safe: values are ASCII)
                    let chars: Vec<char> = v.chars().collect();
                    let s = start.min(chars.len().saturating_sub(1));
                    let e = (s + len).min(chars.len());
                    let sub: String = chars[s..e].iter().collect();
                    F::Cnt(a, if sub.is_empty() { v } else { sub })
                })
                .boxed(),
        ),
        (2, pair.clone().prop_map(|(a, v)| F::Lt(a, v)).boxed()),
    ];
    if al.stw_enw {
        opts.push((
            1,
            (pair.clone(), 1usize..4)
                .prop_map(|((a, v), len)| {
                    let chars: Vec<char> = v.chars().collect();
                    let e = len.min(chars.len());
                    F::Stw(a, chars[..e].iter().collect())
                })
                .boxed(),
        ));
        opts.push((
            1,
            (pair.clone(), 1usize..4)
                .prop_map(|((a, v), len)| {
                    let chars: Vec<char> = v.chars().collect();
                    let s = chars.len().saturating_sub(len);
                    F::Enw(a, chars[s..].iter().collect())
                })
                .boxed(),
        ));
    }
    if al.self_uuid {
        opts.push((1, Just(F::SelfUuid).boxed()));
    }
    if al.invalid {
        opts.push((1, attr.prop_map(F::Invalid).boxed()));
    }
    proptest::strategy::Union::new_weighted(opts).boxed()
}

/// Filter trees of bounded depth/width, with NOT, nested groups, duplicate terms and empty groups.
pub fn arb_filter(al: &Alphabet, depth: u32, width: usize) -> BoxedStrategy<F> {
    let leaf = arb_leaf(al);
    let min = if al.empty_groups { 0 } else { 1 };
    leaf.prop_recursive(depth, (width as u32).pow(depth.min(3)) + 8, width as u32, move |inner| {
        prop_oneof![
            4 => proptest::collection::vec(inner.clone(), min..=width).prop_map(F::And),
            4 => proptest::collection::vec(inner.clone(), min..=width).prop_map(F::Or),
            2 => inner.clone().prop_map(|f| F::Not(Box::new(f))),
            // AND of a positive term and a NOT: the supported shape of negation
            3 => (inner.clone(), inner.clone()).prop_map(|(p, n)| F::And(vec![p, F::Not(Box::new(n))])),
            // deliberate duplicate
            1 => inner.clone().prop_map(|f| F::And(vec![f.clone(), f])),
            1 => inner.prop_map(|f| F::Or(vec![f.clone(), f])),
        ]
    })
    .boxed()
}
