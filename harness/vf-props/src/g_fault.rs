//! Helpers of group 'fault' (see GUIDE.md).
