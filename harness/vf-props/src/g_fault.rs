//! Helpers of group 'fault' (C04, C05, C06, C07): file-backed servers in scratch directories,
//! template databases that are copied per case, restart / backup / restore drivers and an
//! independent raw dump of the SQLite file (own rusqlite connection, no kanidm code involved).
use crate::srv;
use kanidm_proto::backup::BackupCompression;
use kanidm_proto::internal::FsType;
use kanidmd_lib::be::{Backend, BackendConfig};
use kanidmd_lib::prelude::*;
use kanidmd_lib::schema::Schema;
use std::collections::BTreeMap;
use std::path::{Path, PathBuf};
use std::sync::atomic::{AtomicU64, Ordering};
use std::time::Duration;

// ---------------------------------------------------------------------------------------------
// scratch directories: <verif root>/target/scratch/<pid>-<n>/ , removed on drop

static SCRATCH_N: AtomicU64 = AtomicU64::new(0);

pub fn verif_root() -> PathBuf {
    PathBuf::from(std::env::var("VERIF_ROOT").unwrap_or_else(|_| "/verif".into()))
}

pub struct Scratch {
    pub dir: PathBuf,
}

impl Scratch {
    pub fn new() -> Scratch {
        let n = SCRATCH_N.fetch_add(1, Ordering::SeqCst);
        let dir = verif_root()
            .join("target")
            .join("scratch")
            .join(format!("{}-{}", std::process::id(), n));
        let _ = std::fs::remove_dir_all(&dir);
        std::fs::create_dir_all(&dir).expect("scratch dir");
        Scratch { dir }
    }
    pub fn file(&self, name: &str) -> PathBuf {
        self.dir.join(name)
    }
}

impl Default for Scratch {
    fn default() -> Self {
        Self::new()
    }
}

impl Drop for Scratch {
    fn drop(&mut self) {
        let _ = std::fs::remove_dir_all(&self.dir);
    }
}

/// Remove scratch directories left behind by processes that no longer exist (crashed runs).
pub fn sweep_stale_scratch() {
    let base = verif_root().join("target").join("scratch");
    let Ok(rd) = std::fs::read_dir(&base) else {
        return;
    };
    for e in rd.flatten() {
        let name = e.file_name().to_string_lossy().to_string();
        let pid = name.split('-').next().and_then(|p| p.parse::<u32>().ok());
        if let Some(pid) = pid {
            if pid != std::process::id() && !Path::new(&format!("/proc/{pid}")).exists() {
                let _ = std::fs::remove_dir_all(e.path());
            }
        }
    }
}

/// Copy a (closed) SQLite database: main file plus a WAL file should one exist.
pub fn copy_db(src: &Path, dst: &Path) {
    let _ = std::fs::remove_file(dst);
    let _ = std::fs::remove_file(with_suffix(dst, "-wal"));
    let _ = std::fs::remove_file(with_suffix(dst, "-shm"));
    std::fs::copy(src, dst).expect("copy db");
    let wal = with_suffix(src, "-wal");
    if wal.exists() {
        std::fs::copy(&wal, with_suffix(dst, "-wal")).expect("copy wal");
    }
}

pub fn with_suffix(p: &Path, suffix: &str) -> PathBuf {
    let mut s = p.as_os_str().to_os_string();
    s.push(suffix);
    PathBuf::from(s)
}

// ---------------------------------------------------------------------------------------------
// server factory split in two so that a restore can happen between backend and query server

pub fn new_be(path: Option<&Path>, pool: u32) -> Result<(Backend, Schema), OperationError> {
    let schema_outer = Schema::new()?;
    let idxmeta = {
        let schema_txn = schema_outer.write();
        schema_txn.reload_idxmeta()
    };
    let pool = if path.is_none() { 1 } else { pool };
    let cfg = BackendConfig::new(path, pool, FsType::Generic, Some(2048));
    let be = Backend::new(cfg, idxmeta, false)?;
    Ok((be, schema_outer))
}

/// Open (or create) a server on `path` the way the daemon does at start-up: new backend, new
/// query server seeded with `curtime`, then `initialise_helper(curtime, target level)`.
pub async fn open_qs(path: Option<&Path>, pool: u32, curtime: Duration) -> Result<QueryServer, OperationError> {
    open_qs_level(path, pool, curtime, DOMAIN_TGT_LEVEL).await
}

pub async fn open_qs_level(path: Option<&Path>, pool: u32, curtime: Duration, level: u32) -> Result<QueryServer, OperationError> {
    let (be, schema) = new_be(path, pool)?;
    let qs = QueryServer::new(be, schema, srv::DOMAIN.to_string(), curtime)?;
    qs.initialise_helper(curtime, level).await?;
    Ok(qs)
}

/// Restore `backup` (uncompressed backup bytes) into the database at `path` (None = a new in-memory
/// database) and start a server on it at `curtime`, as `restore_server_core` does: backend restore,
/// backend reindex, query server start, full reindex.
pub async fn restore_qs(path: Option<&Path>, pool: u32, backup: &[u8], curtime: Duration) -> Result<QueryServer, OperationError> {
    let (be, schema) = new_be(path, pool)?;
    {
        let mut w = be.write()?;
        w.restore(backup, BackupCompression::NoCompression)?;
        w.commit()?;
    }
    {
        let mut w = be.write()?;
        w.reindex(false)?;
        w.commit()?;
    }
    let qs = QueryServer::new(be, schema, srv::DOMAIN.to_string(), curtime)?;
    qs.initialise_helper(curtime, DOMAIN_TGT_LEVEL).await?;
    {
        let mut w = qs.write(curtime).await?;
        w.reindex(false)?;
        w.commit()?;
    }
    Ok(qs)
}

/// A template database: built once per worker, closed (so SQLite checkpoints and removes the WAL),
/// then copied per case. Every case therefore starts from the byte-identical initialised server.
pub struct Template {
    pub scratch: Scratch,
    pub file: PathBuf,
}

impl Template {
    /// `setup` runs in one write transaction at T0+1 after initialisation.
    pub fn build(
        rt: &tokio::runtime::Runtime,
        setup: impl FnOnce(&mut QueryServerWriteTransaction<'_>) -> Result<(), OperationError>,
    ) -> Template {
        Self::build_level(rt, DOMAIN_TGT_LEVEL, setup)
    }

    pub fn build_level(
        rt: &tokio::runtime::Runtime,
        level: u32,
        setup: impl FnOnce(&mut QueryServerWriteTransaction<'_>) -> Result<(), OperationError>,
    ) -> Template {
        let scratch = Scratch::new();
        let file = scratch.file("template.db");
        rt.block_on(async {
            let qs = open_qs_level(Some(&file), 2, srv::t0(), level).await.expect("template init");
            let mut w = qs.write(srv::ct(1)).await.expect("template write");
            setup(&mut w).expect("template setup");
            w.commit().expect("template commit");
            drop(qs);
        });
        Template { scratch, file }
    }

    pub fn instantiate(&self, dst: &Path) {
        copy_db(&self.file, dst);
    }
}

// ---------------------------------------------------------------------------------------------
// independent raw dump of a database file

/// table name -> sorted rows, every column rendered as text.
pub type RawDb = BTreeMap<String, Vec<String>>;

pub fn raw_dump(path: &Path) -> Result<RawDb, String> {
    use rusqlite::types::ValueRef;
    let conn = rusqlite::Connection::open_with_flags(
        path,
        rusqlite::OpenFlags::SQLITE_OPEN_READ_WRITE | rusqlite::OpenFlags::SQLITE_OPEN_NO_MUTEX,
    )
    .map_err(|e| format!("open {}: {e}", path.display()))?;
    let tables: Vec<String> = {
        let mut st = conn
            .prepare("SELECT name FROM sqlite_master WHERE type='table' ORDER BY name")
            .map_err(|e| e.to_string())?;
        let rows = st.query_map([], |r| r.get::<_, String>(0)).map_err(|e| e.to_string())?;
        rows.collect::<Result<Vec<_>, _>>().map_err(|e| e.to_string())?
    };
    let mut out = RawDb::new();
    for t in tables {
        let mut st = conn.prepare(&format!("SELECT * FROM \"{t}\"")).map_err(|e| e.to_string())?;
        let ncol = st.column_count();
        let mut rows = st.query([]).map_err(|e| e.to_string())?;
        let mut rendered = Vec::new();
        while let Some(r) = rows.next().map_err(|e| e.to_string())? {
            let mut cols = Vec::with_capacity(ncol);
            for i in 0..ncol {
                let c = match r.get_ref(i).map_err(|e| e.to_string())? {
                    ValueRef::Null => "NULL".to_string(),
                    ValueRef::Integer(v) => v.to_string(),
                    ValueRef::Real(v) => v.to_string(),
                    ValueRef::Text(b) | ValueRef::Blob(b) => String::from_utf8_lossy(b).to_string(),
                };
                cols.push(c);
            }
            rendered.push(cols.join(" | "));
        }
        rendered.sort();
        out.insert(t, rendered);
    }
    Ok(out)
}

/// Human readable difference of two raw dumps (first few differing rows per table).
pub fn raw_diff(a: &RawDb, b: &RawDb) -> Vec<String> {
    let mut out = Vec::new();
    let keys: std::collections::BTreeSet<&String> = a.keys().chain(b.keys()).collect();
    for k in keys {
        match (a.get(k), b.get(k)) {
            (Some(x), Some(y)) => {
                if x != y {
                    let xs: std::collections::BTreeSet<&String> = x.iter().collect();
                    let ys: std::collections::BTreeSet<&String> = y.iter().collect();
                    let only_l: Vec<String> = xs.difference(&ys).take(2).map(|s| clip(s, 160)).collect();
                    let only_r: Vec<String> = ys.difference(&xs).take(2).map(|s| clip(s, 160)).collect();
                    out.push(format!("table {k}: {} vs {} rows; only left {only_l:?}; only right {only_r:?}", x.len(), y.len()));
                }
            }
            (Some(_), None) => out.push(format!("table {k}: only in left")),
            (None, Some(_)) => out.push(format!("table {k}: only in right")),
            (None, None) => {}
        }
    }
    out
}

pub fn clip(s: &str, n: usize) -> String {
    if s.len() <= n {
        s.to_string()
    } else {
        let mut cut = n;
        while !s.is_char_boundary(cut) {
            cut -= 1;
        }
        format!("{}…", &s[..cut])
    }
}

// ---------------------------------------------------------------------------------------------
// C04 / C05: transaction templates, a populated template database, and the snapshot of everything
// readers use (stored entries + server-wide in-memory settings)

use crate::dump::{self, Dump};
use crate::ops::{self, Op, Ref};
use crate::pop::{self, Kind};
use kanidmd_lib::idm::server::{IdmServer, IdmServerAudit, IdmServerDelayed};
use kanidmd_lib::modify::{Modify, ModifyList};
use kanidmd_lib::value::{PartialValue, Value};
use kanidmd_lib::verif_hooks::{fault as hfault, ident};
use serde::{Deserialize, Serialize};
use std::collections::BTreeSet;

pub struct Srv {
    pub qs: QueryServer,
    pub idms: IdmServer,
    _delayed: IdmServerDelayed,
    _audit: IdmServerAudit,
}

pub async fn open_srv(path: Option<&Path>, pool: u32, curtime: Duration) -> Result<Srv, OperationError> {
    open_srv_level(path, pool, curtime, DOMAIN_TGT_LEVEL).await
}

pub async fn open_srv_level(path: Option<&Path>, pool: u32, curtime: Duration, level: u32) -> Result<Srv, OperationError> {
    let qs = open_qs_level(path, pool, curtime, level).await?;
    let origin = Url::parse("https://idm.example.com").expect("url");
    let (idms, d, a) = IdmServer::new(qs.clone(), &origin, true, curtime).await?;
    Ok(Srv {
        qs,
        idms,
        _delayed: d,
        _audit: a,
    })
}

pub fn acp_uuid(n: u8) -> Uuid {
    pop::uuid_of(Kind::Other, 0x100 + n as u32)
}
pub fn schema_attr_uuid(n: u8) -> Uuid {
    pop::uuid_of(Kind::Other, 0x200 + n as u32)
}
pub fn schema_class_uuid(n: u8) -> Uuid {
    pop::uuid_of(Kind::Other, 0x300 + n as u32)
}
pub fn schema_attr_name(n: u8) -> String {
    format!("vfattr{n}")
}
pub fn schema_class_name(n: u8) -> String {
    format!("vfclass{n}")
}
pub const ACP_ATTRS: [&str; 4] = ["description", "mail", "member", "gidnumber"];
/// name-table indices of the OAuth2 clients o0 (in the template) and o1 (created by templates)
pub const OAUTH_CLIENT_NAMES: [u8; 2] = [3, 7];
pub const DISPLAY_NAMES: [&str; 3] = ["Example Org", "Vf Display", "Another Name"];

/// Operations of a transaction template. Entry-level operations reuse the shared op language.
#[derive(Debug, Clone, PartialEq, Eq, Hash, Serialize, Deserialize)]
pub enum TOp {
    E(Op),
    /// create schema attribute vfattr{n}
    SchemaAttr { n: u8, indexed: bool },
    /// create schema class vfclass{n} allowing vfattr{n} (must exist) or description
    SchemaClass { n: u8, with_attr: bool },
    /// create an access control profile letting members of G0 search `attr` on groups
    AcpCreate { n: u8, attr: u8 },
    /// add a searchable attribute to the profile that exists in the template (acp 0)
    AcpAddAttr { attr: u8 },
    /// delete the template profile
    AcpDelete,
    /// OAuth2 client o{i}: toggle PKCE requirement (visible in the discovery document)
    OAuth2Pkce { i: u8, disable: bool },
    DomainDisplay { v: u8 },
    /// rotate the signing key of OAuth2 client o{i}
    KeyRotate { i: u8 },
    /// raise the domain functional level to the target level (only meaningful on the template
    /// database that was created at the previous level): the transaction that changes the schema
    DomainRaise,
}

fn acp_entry(n: u8, attrs: &[&str]) -> pop::NewEntry {
    let mut e: pop::NewEntry = kanidmd_lib::entry::Entry::new();
    e.add_ava(Attribute::Class, EntryClass::Object.to_value());
    e.add_ava(Attribute::Class, EntryClass::AccessControlProfile.to_value());
    e.add_ava(Attribute::Class, EntryClass::AccessControlSearch.to_value());
    e.add_ava(Attribute::Class, EntryClass::AccessControlReceiverGroup.to_value());
    e.add_ava(Attribute::Class, EntryClass::AccessControlTargetScope.to_value());
    e.add_ava(Attribute::Name, Value::new_iname(&format!("vfacp{n}")));
    e.add_ava(Attribute::Uuid, Value::Uuid(acp_uuid(n)));
    e.add_ava(Attribute::AcpReceiverGroup, Value::Refer(Ref::G(0).uuid()));
    e.add_ava(
        Attribute::AcpTargetScope,
        Value::new_json_filter_s("{\"eq\":[\"class\",\"group\"]}").expect("filter"),
    );
    for a in attrs {
        e.add_ava(Attribute::AcpSearchAttr, Value::new_iutf8(a));
    }
    e
}

pub fn apply_top(w: &mut QueryServerWriteTransaction<'_>, op: &TOp, ct: Duration) -> Result<(), OperationError> {
    match op {
        TOp::E(op) => ops::apply_in_txn(w, op),
        TOp::SchemaAttr { n, indexed } => {
            let mut e: pop::NewEntry = kanidmd_lib::entry::Entry::new();
            e.add_ava(Attribute::Class, EntryClass::Object.to_value());
            e.add_ava(Attribute::Class, EntryClass::AttributeType.to_value());
            e.add_ava(Attribute::Uuid, Value::Uuid(schema_attr_uuid(*n)));
            e.add_ava(Attribute::AttributeName, Value::new_iutf8(&schema_attr_name(*n)));
            e.add_ava(Attribute::Description, Value::new_utf8s("verification attribute"));
            e.add_ava(Attribute::MultiValue, Value::new_bool(true));
            e.add_ava(Attribute::Unique, Value::new_bool(false));
            e.add_ava(Attribute::Indexed, Value::new_bool(*indexed));
            e.add_ava(Attribute::Syntax, Value::new_syntaxs("UTF8STRING_INSENSITIVE").expect("syntax"));
            w.internal_create(vec![e])
        }
        TOp::SchemaClass { n, with_attr } => {
            let mut e: pop::NewEntry = kanidmd_lib::entry::Entry::new();
            e.add_ava(Attribute::Class, EntryClass::Object.to_value());
            e.add_ava(Attribute::Class, EntryClass::ClassType.to_value());
            e.add_ava(Attribute::Uuid, Value::Uuid(schema_class_uuid(*n)));
            e.add_ava(Attribute::ClassName, Value::new_iutf8(&schema_class_name(*n)));
            e.add_ava(Attribute::Description, Value::new_utf8s("verification class"));
            let may = if *with_attr { schema_attr_name(*n) } else { "description".to_string() };
            e.add_ava(Attribute::May, Value::new_iutf8(&may));
            w.internal_create(vec![e])
        }
        TOp::AcpCreate { n, attr } => w.internal_create(vec![acp_entry(1 + *n % 3, &["name", ACP_ATTRS[*attr as usize % ACP_ATTRS.len()]])]),
        TOp::AcpAddAttr { attr } => w.internal_modify_uuid(
            acp_uuid(0),
            &ModifyList::new_list(vec![Modify::Present(
                Attribute::AcpSearchAttr,
                Value::new_iutf8(ACP_ATTRS[*attr as usize % ACP_ATTRS.len()]),
            )]),
        ),
        TOp::AcpDelete => w.internal_delete_uuid(acp_uuid(0)),
        TOp::OAuth2Pkce { i, disable } => w.internal_modify_uuid(
            Ref::O(*i).uuid(),
            &ModifyList::new_list(vec![
                Modify::Purged(Attribute::OAuth2AllowInsecureClientDisablePkce),
                Modify::Present(Attribute::OAuth2AllowInsecureClientDisablePkce, Value::new_bool(*disable)),
            ]),
        ),
        TOp::DomainDisplay { v } => w.set_domain_display_name(DISPLAY_NAMES[*v as usize % DISPLAY_NAMES.len()]),
        TOp::DomainRaise => w.domain_raise(DOMAIN_TGT_LEVEL),
        TOp::KeyRotate { i } => w.internal_modify_uuid(
            Ref::O(*i).uuid(),
            &ModifyList::new_list(vec![Modify::Present(
                Attribute::KeyActionRotate,
                Value::new_datetime_epoch(ct + Duration::from_secs(300)),
            )]),
        ),
    }
}

/// Population of the C04/C05 template database.
pub fn populate(w: &mut QueryServerWriteTransaction<'_>) -> Result<(), OperationError> {
    let pre = [
        Op::CreatePerson { i: 0, name: 0 },
        Op::CreatePerson { i: 1, name: 1 },
        Op::CreatePerson { i: 2, name: 2 },
        Op::CreateGroup { i: 0, name: 4, members: vec![Ref::P(0)] },
        Op::CreateGroup { i: 1, name: 5, members: vec![Ref::P(1), Ref::G(0)] },
        Op::CreateGroup { i: 2, name: 6, members: vec![] },
        Op::SetAttr { t: Ref::G(1), attr: ops::AttrK::Description, vals: vec![0] },
        Op::SetAttr { t: Ref::G(1), attr: ops::AttrK::Mail, vals: vec![0] },
        Op::CreateOAuth2 { i: 0, name: 3, group: Ref::G(0) },
    ];
    for op in &pre {
        ops::apply_in_txn(w, op)?;
    }
    w.internal_create(vec![acp_entry(0, &["name", "class"])])?;
    Ok(())
}

/// Everything a reader can observe that the property talks about.
#[derive(Debug, Clone, PartialEq, Eq)]
pub struct Settings {
    /// schema: names of all attributes (with index flag) and classes of the in-memory schema
    pub schema_attrs: BTreeSet<String>,
    pub schema_classes: BTreeSet<String>,
    /// access controls: attributes of G1 that P0 gets back from a search
    pub access_p0_on_g1: Option<BTreeSet<String>>,
    pub domain_display: String,
    /// key material: ES256 key ids loaded for OAuth2 client o0 / o1
    pub kids: Vec<Option<Vec<String>>>,
    /// OAuth2 client configuration as the IDM layer serves it (None = unknown client)
    pub oauth2: Vec<Option<String>>,
    /// in-memory replication update vector (what a replication supplier would offer)
    pub ruv: Vec<String>,
}

#[derive(Debug, Clone, PartialEq, Eq)]
pub struct Snapshot {
    pub dump: Dump,
    pub settings: Settings,
}

pub async fn snapshot(srv: &Srv) -> Result<Snapshot, OperationError> {
    let mut pr = srv.idms.proxy_read().await?;
    let mut oauth2 = Vec::new();
    for name in OAUTH_CLIENT_NAMES {
        oauth2.push(pr.oauth2_openid_discovery(ops::NAMES[name as usize]).ok().map(|d| {
            format!("pkce_methods={:?} scopes={:?}", d.code_challenge_methods_supported, d.scopes_supported)
        }));
    }
    let r = &mut pr.qs_read;
    let schema_attrs: BTreeSet<String> = kanidmd_lib::schema::SchemaTransaction::get_attributes(r.get_schema())
        .iter()
        .map(|(k, v)| format!("{}{}", k.as_str(), if v.indexed { " (indexed)" } else { "" }))
        .collect();
    let schema_classes: BTreeSet<String> = kanidmd_lib::schema::SchemaTransaction::get_classes(r.get_schema())
        .keys()
        .map(|k| k.to_string())
        .collect();
    let g1_name = r
        .internal_search_uuid(Ref::G(1).uuid())
        .ok()
        .and_then(|e| e.get_ava_single_proto_string(Attribute::Name));
    let access_p0_on_g1 = match (r.internal_search_uuid(Ref::P(0).uuid()), g1_name) {
        (Ok(p0), Some(g1_name)) => {
            let idn = ident::user_readwrite(p0);
            // the profile in the template lets members of G0 search groups by name
            let f = Filter::new(f_eq(Attribute::Name, PartialValue::new_iname(&g1_name)))
                .validate(r.get_schema())
                .map_err(OperationError::SchemaViolation)?;
            let se = kanidmd_lib::event::SearchEvent::new_impersonate(&idn, f.clone(), f);
            match r.search_ext(&se) {
                Ok(res) => Some(
                    res.iter()
                        .flat_map(|e| e.get_ava_names().map(|s| s.to_string()).collect::<Vec<_>>())
                        .collect(),
                ),
                Err(_) => None,
            }
        }
        _ => None,
    };
    let domain_display = r.get_domain_display_name().to_string();
    let kids = (0..ops::N_OAUTH).map(|i| hfault::key_object_kids(r, Ref::O(i).uuid())).collect();
    let mut ruv: Vec<String> = kanidmd_lib::verif_hooks::repl::ruv_cids(r).iter().map(|c| format!("{c:?}")).collect();
    ruv.sort();
    let dump = dump::dump_all(r)?;
    Ok(Snapshot {
        dump,
        settings: Settings {
            schema_attrs,
            schema_classes,
            access_p0_on_g1,
            domain_display,
            kids,
            oauth2,
            ruv,
        },
    })
}

/// Kinds of server-wide state in which two snapshots differ (empty = identical).
pub fn settings_diff(a: &Settings, b: &Settings) -> Vec<(&'static str, String)> {
    let mut out = Vec::new();
    if a.schema_attrs != b.schema_attrs || a.schema_classes != b.schema_classes {
        let d = |x: &BTreeSet<String>, y: &BTreeSet<String>| x.symmetric_difference(y).take(6).cloned().collect::<Vec<_>>();
        out.push((
            "schema",
            format!("attributes differing {:?}, classes differing {:?}", d(&a.schema_attrs, &b.schema_attrs), d(&a.schema_classes, &b.schema_classes)),
        ));
    }
    if a.access_p0_on_g1 != b.access_p0_on_g1 {
        out.push(("access controls", format!("{:?} vs {:?}", a.access_p0_on_g1, b.access_p0_on_g1)));
    }
    if a.domain_display != b.domain_display {
        out.push(("domain settings", format!("{:?} vs {:?}", a.domain_display, b.domain_display)));
    }
    if a.kids != b.kids {
        out.push(("key material", format!("{:?} vs {:?}", a.kids, b.kids)));
    }
    if a.ruv != b.ruv {
        let x: BTreeSet<&String> = a.ruv.iter().collect();
        let y: BTreeSet<&String> = b.ruv.iter().collect();
        out.push(("replication update vector", format!("differing {:?}", x.symmetric_difference(&y).take(4).collect::<Vec<_>>())));
    }
    if a.oauth2 != b.oauth2 {
        out.push(("oauth2 client configuration", format!("{:?} vs {:?}", a.oauth2, b.oauth2)));
    }
    out
}

// ---------------------------------------------------------------------------------------------
// C05: template with history (recycled -> tombstoned entries in the past)

pub type SetupFn = Box<dyn FnOnce(&mut QueryServerWriteTransaction<'_>) -> Result<(), OperationError>>;

impl Template {
    /// Like `build`, with several setup transactions at the given offsets (seconds after T0).
    pub fn build_steps(rt: &tokio::runtime::Runtime, steps: Vec<(u64, SetupFn)>) -> Template {
        let scratch = Scratch::new();
        let file = scratch.file("template.db");
        rt.block_on(async {
            let qs = open_qs(Some(&file), 2, srv::t0()).await.expect("template init");
            for (off, f) in steps {
                let mut w = qs.write(srv::ct(off)).await.expect("template write");
                f(&mut w).expect("template setup");
                w.commit().expect("template commit");
            }
            drop(qs);
        });
        Template { scratch, file }
    }
}

pub const DAY: u64 = 86_400;

/// Population of `populate` plus two persons that are deleted, then turned into tombstones 8 days
/// later, so that a transaction 16+ days after T0 can purge them.
pub fn c05_template(rt: &tokio::runtime::Runtime) -> Template {
    Template::build_steps(
        rt,
        vec![
            (
                1,
                Box::new(|w| {
                    populate(w)?;
                    ops::apply_in_txn(w, &Op::CreatePerson { i: 4, name: 12 })?;
                    ops::apply_in_txn(w, &Op::CreatePerson { i: 5, name: 13 })
                }),
            ),
            (
                2,
                Box::new(|w| {
                    ops::apply_in_txn(w, &Op::Delete { t: Ref::P(4) })?;
                    ops::apply_in_txn(w, &Op::Delete { t: Ref::P(5) })
                }),
            ),
            (8 * DAY, Box::new(|w| ops::apply_in_txn(w, &Op::PurgeRecycled))),
        ],
    )
}
