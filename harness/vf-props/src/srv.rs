//! Server factory with a harness-owned clock. Nothing here reads the wall clock.
use kanidmd_lib::be::{Backend, BackendConfig};
use kanidm_proto::internal::FsType;
use kanidmd_lib::prelude::*;
use kanidmd_lib::schema::Schema;
use std::path::Path;
use std::time::Duration;

/// Virtual epoch of every generated world (2023-11-14T22:13:20Z).
pub const T0_SECS: u64 = 1_700_000_000;

pub fn t0() -> Duration {
    Duration::from_secs(T0_SECS)
}
/// Virtual time `off` seconds after the world epoch.
pub fn ct(off: u64) -> Duration {
    Duration::from_secs(T0_SECS + off)
}

pub fn runtime() -> tokio::runtime::Runtime {
    tokio::runtime::Builder::new_current_thread()
        .enable_all()
        .build()
        .expect("tokio runtime")
}

pub const DOMAIN: &str = "example.com";

/// A new, not yet initialised query server. `path` None = private in-memory database.
pub fn new_qs_uninit(path: Option<&Path>, pool: u32, curtime: Duration) -> Result<QueryServer, OperationError> {
    let schema_outer = Schema::new()?;
    let idxmeta = {
        let schema_txn = schema_outer.write();
        schema_txn.reload_idxmeta()
    };
    let pool = if path.is_none() { 1 } else { pool };
    let cfg = BackendConfig::new(path, pool, FsType::Generic, Some(2048));
    let be = Backend::new(cfg, idxmeta, false)?;
    QueryServer::new(be, schema_outer, DOMAIN.to_string(), curtime)
}

/// A fully initialised in-memory server at the target domain level, initialised at virtual T0.
pub async fn new_qs() -> QueryServer {
    let qs = new_qs_uninit(None, 1, t0()).expect("qs new");
    qs.initialise_helper(t0(), DOMAIN_TGT_LEVEL).await.expect("init");
    qs
}

pub async fn new_qs_at(path: Option<&Path>, pool: u32, level: u32) -> QueryServer {
    let qs = new_qs_uninit(path, pool, t0()).expect("qs new");
    qs.initialise_helper(t0(), level).await.expect("init");
    qs
}

pub async fn new_idms(qs: QueryServer) -> (IdmServer, IdmServerDelayed, IdmServerAudit) {
    let origin = Url::parse("https://idm.example.com").expect("url");
    IdmServer::new(qs, &origin, true, t0()).await.expect("idms")
}
