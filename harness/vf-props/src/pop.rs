//! Population alphabet: deterministic uuids and entry builders so histories are replayable.
use kanidmd_lib::entry::{Entry, EntryInit, EntryNew};
use kanidmd_lib::prelude::*;
use kanidmd_lib::value::Value;

pub type NewEntry = Entry<EntryInit, EntryNew>;

#[derive(Debug, Clone, Copy, PartialEq, Eq, Hash, PartialOrd, Ord, serde::Serialize, serde::Deserialize)]
pub enum Kind {
    Person,
    Service,
    Group,
    OAuth2,
    DynGroup,
    Sync,
    Other,
}

/// Fixed uuid of population member (kind, index); all in the dynamic range.
pub fn uuid_of(kind: Kind, i: u32) -> Uuid {
    let k = match kind {
        Kind::Person => 1u128,
        Kind::Service => 2,
        Kind::Group => 3,
        Kind::OAuth2 => 4,
        Kind::DynGroup => 5,
        Kind::Sync => 6,
        Kind::Other => 7,
    };
    Uuid::from_u128(0xAAAA_0000_0000_4000_8000_0000_0000_0000u128 + (k << 32) + i as u128)
}
pub fn person_uuid(i: u32) -> Uuid {
    uuid_of(Kind::Person, i)
}
pub fn group_uuid(i: u32) -> Uuid {
    uuid_of(Kind::Group, i)
}
pub fn service_uuid(i: u32) -> Uuid {
    uuid_of(Kind::Service, i)
}

pub fn person(uuid: Uuid, name: &str) -> NewEntry {
    let mut e: NewEntry = Entry::new();
    e.add_ava(Attribute::Class, EntryClass::Object.to_value());
    e.add_ava(Attribute::Class, EntryClass::Account.to_value());
    e.add_ava(Attribute::Class, EntryClass::Person.to_value());
    e.add_ava(Attribute::Name, Value::new_iname(name));
    e.add_ava(Attribute::Uuid, Value::Uuid(uuid));
    e.add_ava(Attribute::DisplayName, Value::new_utf8s(name));
    e
}

pub fn service(uuid: Uuid, name: &str) -> NewEntry {
    let mut e: NewEntry = Entry::new();
    e.add_ava(Attribute::Class, EntryClass::Object.to_value());
    e.add_ava(Attribute::Class, EntryClass::Account.to_value());
    e.add_ava(Attribute::Class, EntryClass::ServiceAccount.to_value());
    e.add_ava(Attribute::Name, Value::new_iname(name));
    e.add_ava(Attribute::Uuid, Value::Uuid(uuid));
    e.add_ava(Attribute::DisplayName, Value::new_utf8s(name));
    e
}

pub fn group(uuid: Uuid, name: &str, members: &[Uuid]) -> NewEntry {
    let mut e: NewEntry = Entry::new();
    e.add_ava(Attribute::Class, EntryClass::Object.to_value());
    e.add_ava(Attribute::Class, EntryClass::Group.to_value());
    e.add_ava(Attribute::Name, Value::new_iname(name));
    e.add_ava(Attribute::Uuid, Value::Uuid(uuid));
    for m in members {
        e.add_ava(Attribute::Member, Value::Refer(*m));
    }
    e
}
