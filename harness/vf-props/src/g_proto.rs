//! Helpers of group 'proto' (see GUIDE.md).
