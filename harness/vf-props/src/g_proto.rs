//! Helpers of group 'proto' (see GUIDE.md).
//!
//! * `scim`: harness-side AST of SCIM filters (serialisable, shrinkable), generators, the
//!   translation to the two implementations' types (`kanidm_proto::scim_v1` and `scim_proto::filter`),
//!   an independent nesting measure and an independent minimal-parenthesis printer (C42).
//! * `pf`: population, LDAP / SCIM filter ASTs and the independent evaluator of their standard meaning (C41).
//! * `oa`: OAuth2 client configurations, requests and drivers (C38, C39).
pub mod oa;
pub mod pf;
pub mod scim;
