//! Independent invariant checkers over the stored entries (never calling the plugin under judgement).
use crate::dump::{status_of, Status};
use kanidmd_lib::entry::{Entry, EntryCommitted, EntrySealed};
use kanidmd_lib::prelude::*;
use std::collections::{BTreeMap, BTreeSet, VecDeque};
use std::sync::Arc;

pub type E = Arc<Entry<EntrySealed, EntryCommitted>>;

pub fn refs(e: &Entry<EntrySealed, EntryCommitted>, a: Attribute) -> BTreeSet<Uuid> {
    e.get_ava_refer(a).cloned().unwrap_or_default()
}

pub fn live(entries: &[E]) -> Vec<&E> {
    entries.iter().filter(|e| status_of(e) == Status::Live).collect()
}

/// C17: memberof / directmemberof must equal the closure recomputed from member ∪ dynmember edges of
/// live groups. Returns human-readable discrepancies (empty = invariant holds).
pub fn memberof_violations(entries: &[E]) -> Vec<String> {
    let live = live(entries);
    let live_set: BTreeSet<Uuid> = live.iter().map(|e| e.get_uuid()).collect();
    // reversed edges: member -> groups that list it
    let mut parents: BTreeMap<Uuid, BTreeSet<Uuid>> = BTreeMap::new();
    for g in &live {
        if !g.has_class(&EntryClass::Group) {
            continue;
        }
        let gu = g.get_uuid();
        for m in refs(g, Attribute::Member).into_iter().chain(refs(g, Attribute::DynMember)) {
            parents.entry(m).or_default().insert(gu);
        }
    }
    let mut out = Vec::new();
    for e in &live {
        let u = e.get_uuid();
        let direct: BTreeSet<Uuid> = parents
            .get(&u)
            .map(|s| s.iter().filter(|g| live_set.contains(g)).copied().collect())
            .unwrap_or_default();
        // BFS upwards
        let mut closure: BTreeSet<Uuid> = BTreeSet::new();
        let mut q: VecDeque<Uuid> = direct.iter().copied().collect();
        while let Some(g) = q.pop_front() {
            if closure.insert(g) {
                if let Some(ps) = parents.get(&g) {
                    for p in ps {
                        if live_set.contains(p) && !closure.contains(p) {
                            q.push_back(*p);
                        }
                    }
                }
            }
        }
        let have_mo = refs(e, Attribute::MemberOf);
        let have_dmo = refs(e, Attribute::DirectMemberOf);
        if have_mo != closure {
            let missing: Vec<_> = closure.difference(&have_mo).collect();
            let extra: Vec<_> = have_mo.difference(&closure).collect();
            out.push(format!("memberof of {u}: missing {missing:?} extra {extra:?}"));
        }
        if have_dmo != direct {
            let missing: Vec<_> = direct.difference(&have_dmo).collect();
            let extra: Vec<_> = have_dmo.difference(&direct).collect();
            out.push(format!("directmemberof of {u}: missing {missing:?} extra {extra:?}"));
        }
    }
    out
}

pub const SIG_MO_MISMATCH: &str = "memberof closure mismatch";
/// Known finding: the stored memberof values satisfy the propagation equations
/// mo(u) = ⋃_{p ∈ parents(u)} ({p} ∪ mo(p)) and directmemberof is exact, but they are not the
/// *least* solution — stale values sustained by a membership cycle (only possible with a cycle).
pub const SIG_MO_STALE_CYCLE: &str = "stale memberof sustained by a membership cycle (stored values are a non-least fixpoint)";

/// Classify the state: None = exact; Some((signature, detail)).
pub fn memberof_classify(entries: &[E]) -> Option<(&'static str, String)> {
    let v = memberof_violations(entries);
    let first = v.first()?.clone();
    let detail = format!("{first} (and {} more)", v.len() - 1);
    // Does the stored state satisfy the local propagation equations with exact directmemberof?
    let live = live(entries);
    let live_set: BTreeSet<Uuid> = live.iter().map(|e| e.get_uuid()).collect();
    let mut parents: BTreeMap<Uuid, BTreeSet<Uuid>> = BTreeMap::new();
    let mut stored_mo: BTreeMap<Uuid, BTreeSet<Uuid>> = BTreeMap::new();
    for g in &live {
        stored_mo.insert(g.get_uuid(), refs(g, Attribute::MemberOf));
        if !g.has_class(&EntryClass::Group) {
            continue;
        }
        for m in refs(g, Attribute::Member).into_iter().chain(refs(g, Attribute::DynMember)) {
            parents.entry(m).or_default().insert(g.get_uuid());
        }
    }
    for e in &live {
        let u = e.get_uuid();
        let direct: BTreeSet<Uuid> = parents
            .get(&u)
            .map(|s| s.iter().filter(|g| live_set.contains(g)).copied().collect())
            .unwrap_or_default();
        if refs(e, Attribute::DirectMemberOf) != direct {
            return Some((SIG_MO_MISMATCH, detail));
        }
        let mut want: BTreeSet<Uuid> = direct.clone();
        for p in &direct {
            if let Some(pm) = stored_mo.get(p) {
                want.extend(pm.iter().copied());
            }
        }
        if stored_mo.get(&u) != Some(&want) {
            return Some((SIG_MO_MISMATCH, detail));
        }
    }
    // equations hold everywhere, yet the closure differs: only extra (never missing) values are
    // possible here, and only if some cycle sustains them.
    Some((SIG_MO_STALE_CYCLE, detail))
}

/// Does the member graph over live groups contain a cycle / what is its depth? (for class labels)
pub fn graph_shape(entries: &[E]) -> (bool, usize) {
    let live = live(entries);
    let mut children: BTreeMap<Uuid, BTreeSet<Uuid>> = BTreeMap::new();
    let groups: BTreeSet<Uuid> = live
        .iter()
        .filter(|e| e.has_class(&EntryClass::Group))
        .map(|e| e.get_uuid())
        // population groups only (built-in nesting would make every case look deep)
        .filter(|u| u.as_u128() >> 112 == 0xAAAA)
        .collect();
    for g in &live {
        if groups.contains(&g.get_uuid()) {
            let ms: BTreeSet<Uuid> = refs(g, Attribute::Member).into_iter().filter(|m| groups.contains(m)).collect();
            children.insert(g.get_uuid(), ms);
        }
    }
    // longest simple path bounded, and cycle detection by DFS colours
    let mut cyc = false;
    let mut depth = 0usize;
    fn dfs(u: Uuid, ch: &BTreeMap<Uuid, BTreeSet<Uuid>>, stack: &mut Vec<Uuid>, cyc: &mut bool, depth: &mut usize) {
        if stack.contains(&u) {
            *cyc = true;
            return;
        }
        if stack.len() > 14 {
            return;
        }
        stack.push(u);
        *depth = (*depth).max(stack.len());
        if let Some(cs) = ch.get(&u) {
            for c in cs {
                dfs(*c, ch, stack, cyc, depth);
            }
        }
        stack.pop();
    }
    for g in children.keys() {
        // only user groups matter for labels; builtin nesting is shallow
        dfs(*g, &children, &mut Vec::new(), &mut cyc, &mut depth);
    }
    (cyc, depth)
}
