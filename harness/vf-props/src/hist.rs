//! History runner: interpret an op list against one real server, call an invariant checker after
//! every commit, and check that rejected ops leave nothing behind.
use crate::dump::{self, DiffOpts, Dump};
use crate::inv::E;
use crate::ops::{self, Node, Op};
use kanidmd_lib::prelude::*;
use vf_core::CaseLog;

pub struct HistStats {
    pub committed: usize,
    pub rejected: usize,
}

/// What the per-commit checker gets to look at.
pub struct Snapshot<'a> {
    pub step: usize,
    pub op: &'a Op,
    pub entries: &'a [E],
}

/// Run `ops` on a fresh single server.
///
/// * `check_rejects`: a rejected op must leave the canonical dump unchanged;
/// * `inv`: called after every *committed* op with all stored entries; returns discrepancies
///   as (signature, message) pairs.
pub async fn run_single(
    ops_list: &[Op],
    log: &mut CaseLog,
    check_rejects: bool,
    mut inv: impl FnMut(&Snapshot<'_>, &mut CaseLog),
) -> (Node, HistStats) {
    let mut node = Node::new().await;
    let mut stats = HistStats {
        committed: 0,
        rejected: 0,
    };
    let mut before: Option<Dump> = None;
    if check_rejects {
        let mut r = node.qs.read().await.expect("read");
        before = Some(dump::dump_all(&mut r).expect("dump"));
    }
    for (i, op) in ops_list.iter().enumerate() {
        let res = ops::apply(&mut node, op).await;
        if matches!(op, Op::Advance { .. }) {
            continue;
        }
        let mut r = node.qs.read().await.expect("read");
        match res {
            Ok(()) => {
                stats.committed += 1;
                let entries = dump::all_entries(&mut r).expect("all entries");
                inv(
                    &Snapshot {
                        step: i,
                        op,
                        entries: &entries,
                    },
                    log,
                );
                if check_rejects {
                    before = Some(entries.iter().map(|e| (e.get_uuid(), dump::dump_entry(e))).collect());
                }
            }
            Err(e) => {
                stats.rejected += 1;
                if check_rejects {
                    let after = dump::dump_all(&mut r).expect("dump");
                    if let Some(b) = &before {
                        let d = dump::diff(
                            b,
                            &after,
                            &DiffOpts {
                                skip_attrs: &[],
                                ids: true,
                                changestate: true,
                            },
                        );
                        if !d.is_empty() {
                            log.fail(
                                "rejected operation left a trace",
                                format!("step {i} {op:?} -> Err({e:?}) but the database changed: {:?}", &d[..d.len().min(6)]),
                            );
                        }
                    }
                }
            }
        }
        if log.failed() {
            break;
        }
    }
    (node, stats)
}

/// Errors that mean the harness itself is broken rather than the request being refused.
pub fn is_internal_error(e: &OperationError) -> bool {
    matches!(
        e,
        OperationError::Backend | OperationError::SqliteError | OperationError::InvalidState | OperationError::CorruptedEntry(_)
    )
}
