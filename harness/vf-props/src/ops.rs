//! Operation language, generator and interpreter for server-level histories.
//!
//! A history is `Vec<Step>`; each step names the replica it runs on. Every op runs in its own
//! write transaction at that replica's virtual clock. Rejected ops are expected (the generator
//! produces ill-typed / conflicting requests on purpose); the interpreter reports the result and
//! the checks decide what must hold.
use crate::pop::{self, Kind};
use crate::srv::{self, ct};
use kanidm_proto::internal::Filter as ProtoFilter;
use kanidmd_lib::event::ReviveRecycledEvent;
use kanidmd_lib::modify::{Modify, ModifyList};
use kanidmd_lib::prelude::*;
use kanidmd_lib::value::{PartialValue, Value};
use kanidmd_lib::verif_hooks::ident;
use proptest::prelude::*;
use serde::{Deserialize, Serialize};
use std::collections::BTreeSet;

pub const NAMES: [&str; 16] = [
    "anna", "bob", "carl", "dora", "emil", "faye", "gus", "hana", "ivan", "jude", "kim", "lars", "mona", "nils", "olga", "pia",
];
pub const DESCS: [&str; 4] = ["Ga", "bag", "gab x", "Zed"];
pub const MAILS: [&str; 4] = ["a@example.com", "b@example.com", "ab@example.org", "Bag@example.com"];
pub const GIDS: [u32; 4] = [70001, 70002, 80000, 70001];

pub const N_PERSON: u8 = 6;
pub const N_SERVICE: u8 = 3;
pub const N_GROUP: u8 = 12;
pub const N_OAUTH: u8 = 2;
pub const N_DYN: u8 = 2;

#[derive(Debug, Clone, Copy, PartialEq, Eq, Hash, PartialOrd, Ord, Serialize, Deserialize)]
pub enum Ref {
    P(u8),
    S(u8),
    G(u8),
    O(u8),
    D(u8),
    /// a uuid that never exists
    Missing,
}

impl Ref {
    pub fn uuid(&self) -> Uuid {
        match self {
            Ref::P(i) => pop::uuid_of(Kind::Person, *i as u32),
            Ref::S(i) => pop::uuid_of(Kind::Service, *i as u32),
            Ref::G(i) => pop::uuid_of(Kind::Group, *i as u32),
            Ref::O(i) => pop::uuid_of(Kind::OAuth2, *i as u32),
            Ref::D(i) => pop::uuid_of(Kind::DynGroup, *i as u32),
            Ref::Missing => pop::uuid_of(Kind::Other, 0xdead),
        }
    }
    pub fn is_group(&self) -> bool {
        matches!(self, Ref::G(_) | Ref::D(_))
    }
}

#[derive(Debug, Clone, Copy, PartialEq, Eq, Hash, Serialize, Deserialize)]
pub enum AttrK {
    Description,
    DisplayName,
    Mail,
    LegalName,
    GidNumber,
}

impl AttrK {
    pub fn attr(&self) -> Attribute {
        match self {
            AttrK::Description => Attribute::Description,
            AttrK::DisplayName => Attribute::DisplayName,
            AttrK::Mail => Attribute::Mail,
            AttrK::LegalName => Attribute::LegalName,
            AttrK::GidNumber => Attribute::GidNumber,
        }
    }
    pub fn value(&self, i: u8) -> Value {
        let i = i as usize;
        match self {
            AttrK::Description | AttrK::DisplayName | AttrK::LegalName => Value::new_utf8s(DESCS[i % DESCS.len()]),
            AttrK::Mail => Value::new_email_address_s(MAILS[i % MAILS.len()]).expect("mail"),
            AttrK::GidNumber => Value::Uint32(GIDS[i % GIDS.len()]),
        }
    }
}

/// Dynamic group filters (proto form), index into a fixed list.
pub fn dyn_filter(i: u8) -> ProtoFilter {
    match i % 6 {
        0 => ProtoFilter::Eq("class".into(), "person".into()),
        1 => ProtoFilter::Eq("name".into(), NAMES[0].into()),
        2 => ProtoFilter::Pres("mail".into()),
        3 => ProtoFilter::Or(vec![
            ProtoFilter::Eq("name".into(), NAMES[1].into()),
            ProtoFilter::Eq("description".into(), DESCS[1].into()),
        ]),
        4 => ProtoFilter::And(vec![
            ProtoFilter::Eq("class".into(), "account".into()),
            ProtoFilter::AndNot(Box::new(ProtoFilter::Eq("class".into(), "person".into()))),
        ]),
        _ => ProtoFilter::Eq("class".into(), "service_account".into()),
    }
}

#[derive(Debug, Clone, PartialEq, Eq, Hash, Serialize, Deserialize)]
pub enum Op {
    CreatePerson { i: u8, name: u8 },
    CreateService { i: u8, name: u8 },
    CreateGroup { i: u8, name: u8, members: Vec<Ref> },
    CreateOAuth2 { i: u8, name: u8, group: Ref },
    CreateDynGroup { i: u8, name: u8, filter: u8 },
    /// create an entry of the same kind as `t` but with a fresh random uuid and the given name
    CreateAnonGroup { name: u8 },
    Rename { t: Ref, name: u8 },
    SetAttr { t: Ref, attr: AttrK, vals: Vec<u8> },
    AddAttr { t: Ref, attr: AttrK, val: u8 },
    PurgeAttr { t: Ref, attr: AttrK },
    AddMember { g: Ref, m: Ref },
    RemoveMember { g: Ref, m: Ref },
    SetMembers { g: Ref, members: Vec<Ref> },
    SetManager { t: Ref, by: Ref },
    SetScopeMap { o: u8, group: Ref },
    SetDynFilter { d: u8, filter: u8 },
    EnablePosix { t: Ref, gid: Option<u8> },
    DisablePosix { t: Ref },
    Delete { t: Ref },
    Revive { t: Ref },
    PurgeRecycled,
    PurgeTombstones,
    Reindex,
    /// advance this replica's virtual clock
    Advance { secs: u32 },
    DomainRename { i: u8 },
    /// deliberately ill-typed / invalid requests
    BadSingleMulti { t: Ref },
    BadUnknownClass { t: Ref },
    BadRemoveMust { t: Ref },
}

pub const DOMAINS: [&str; 3] = ["example.com", "new.example.org", "dev.example.net"];

#[derive(Debug, Clone, PartialEq, Eq, Hash, Serialize, Deserialize)]
pub enum Step {
    /// run op on replica `r`
    Do { r: u8, op: Op },
    /// incremental replication from -> to
    Repl { from: u8, to: u8 },
    /// full refresh from -> to
    Refresh { from: u8, to: u8 },
}

pub struct Node {
    pub qs: QueryServer,
    /// seconds after the world epoch
    pub clock: u64,
}

impl Node {
    pub async fn new() -> Node {
        Node {
            qs: srv::new_qs().await,
            clock: 10,
        }
    }
    pub fn now(&self) -> Duration {
        ct(self.clock)
    }
}

fn name_of(i: u8) -> &'static str {
    NAMES[i as usize % NAMES.len()]
}

fn uuid_filter(u: Uuid) -> Filter<FilterInvalid> {
    Filter::new(f_eq(Attribute::Uuid, PartialValue::Uuid(u)))
}
fn live_uuid_filter(u: Uuid) -> Filter<FilterInvalid> {
    Filter::new_ignore_hidden(f_eq(Attribute::Uuid, PartialValue::Uuid(u)))
}

fn modify(w: &mut QueryServerWriteTransaction<'_>, u: Uuid, mods: Vec<Modify>) -> Result<(), OperationError> {
    w.internal_modify(&live_uuid_filter(u), &ModifyList::new_list(mods))
}

/// Apply one op inside an open write transaction.
pub fn apply_in_txn(w: &mut QueryServerWriteTransaction<'_>, op: &Op) -> Result<(), OperationError> {
    match op {
        Op::CreatePerson { i, name } => w.internal_create(vec![pop::person(Ref::P(*i).uuid(), name_of(*name))]),
        Op::CreateService { i, name } => w.internal_create(vec![pop::service(Ref::S(*i).uuid(), name_of(*name))]),
        Op::CreateGroup { i, name, members } => {
            let ms: Vec<Uuid> = members.iter().map(|m| m.uuid()).collect();
            w.internal_create(vec![pop::group(Ref::G(*i).uuid(), name_of(*name), &ms)])
        }
        Op::CreateAnonGroup { name } => {
            let mut e = pop::group(Uuid::new_v4(), name_of(*name), &[]);
            e.remove_ava(Attribute::Uuid);
            w.internal_create(vec![e])
        }
        Op::CreateOAuth2 { i, name, group } => {
            let mut e: pop::NewEntry = kanidmd_lib::entry::Entry::new();
            e.add_ava(Attribute::Class, EntryClass::Object.to_value());
            e.add_ava(Attribute::Class, EntryClass::Account.to_value());
            e.add_ava(Attribute::Class, EntryClass::OAuth2ResourceServer.to_value());
            e.add_ava(Attribute::Class, EntryClass::OAuth2ResourceServerBasic.to_value());
            e.add_ava(Attribute::Uuid, Value::Uuid(Ref::O(*i).uuid()));
            e.add_ava(Attribute::Name, Value::new_iname(name_of(*name)));
            e.add_ava(Attribute::DisplayName, Value::new_utf8s(name_of(*name)));
            e.add_ava(
                Attribute::OAuth2RsOriginLanding,
                Value::new_url_s("https://demo.example.com").expect("url"),
            );
            e.add_ava(
                Attribute::OAuth2RsScopeMap,
                Value::new_oauthscopemap(group.uuid(), ["read".to_string()].into_iter().collect()).expect("scopemap"),
            );
            w.internal_create(vec![e])
        }
        Op::CreateDynGroup { i, name, filter } => {
            let mut e = pop::group(Ref::D(*i).uuid(), name_of(*name), &[]);
            e.add_ava(Attribute::Class, EntryClass::DynGroup.to_value());
            e.add_ava(Attribute::DynGroupFilter, Value::JsonFilt(dyn_filter(*filter)));
            w.internal_create(vec![e])
        }
        Op::Rename { t, name } => modify(
            w,
            t.uuid(),
            vec![Modify::Purged(Attribute::Name), Modify::Present(Attribute::Name, Value::new_iname(name_of(*name)))],
        ),
        Op::SetAttr { t, attr, vals } => {
            let mut m = vec![Modify::Purged(attr.attr())];
            for v in vals {
                m.push(Modify::Present(attr.attr(), attr.value(*v)));
            }
            modify(w, t.uuid(), m)
        }
        Op::AddAttr { t, attr, val } => modify(w, t.uuid(), vec![Modify::Present(attr.attr(), attr.value(*val))]),
        Op::PurgeAttr { t, attr } => modify(w, t.uuid(), vec![Modify::Purged(attr.attr())]),
        Op::AddMember { g, m } => modify(w, g.uuid(), vec![Modify::Present(Attribute::Member, Value::Refer(m.uuid()))]),
        Op::RemoveMember { g, m } => modify(
            w,
            g.uuid(),
            vec![Modify::Removed(Attribute::Member, PartialValue::Refer(m.uuid()))],
        ),
        Op::SetMembers { g, members } => {
            let mut m = vec![Modify::Purged(Attribute::Member)];
            for x in members {
                m.push(Modify::Present(Attribute::Member, Value::Refer(x.uuid())));
            }
            modify(w, g.uuid(), m)
        }
        Op::SetManager { t, by } => modify(
            w,
            t.uuid(),
            vec![
                Modify::Purged(Attribute::EntryManagedBy),
                Modify::Present(Attribute::EntryManagedBy, Value::Refer(by.uuid())),
            ],
        ),
        Op::SetScopeMap { o, group } => modify(
            w,
            Ref::O(*o).uuid(),
            vec![Modify::Present(
                Attribute::OAuth2RsScopeMap,
                Value::new_oauthscopemap(group.uuid(), ["read".to_string()].into_iter().collect()).expect("scopemap"),
            )],
        ),
        Op::SetDynFilter { d, filter } => modify(
            w,
            Ref::D(*d).uuid(),
            vec![
                Modify::Purged(Attribute::DynGroupFilter),
                Modify::Present(Attribute::DynGroupFilter, Value::JsonFilt(dyn_filter(*filter))),
            ],
        ),
        Op::EnablePosix { t, gid } => {
            let class = if t.is_group() { EntryClass::PosixGroup } else { EntryClass::PosixAccount };
            let mut m = vec![Modify::Present(Attribute::Class, class.to_value())];
            if let Some(g) = gid {
                m.push(Modify::Purged(Attribute::GidNumber));
                m.push(Modify::Present(Attribute::GidNumber, AttrK::GidNumber.value(*g)));
            }
            modify(w, t.uuid(), m)
        }
        Op::DisablePosix { t } => {
            let class = if t.is_group() { EntryClass::PosixGroup } else { EntryClass::PosixAccount };
            modify(
                w,
                t.uuid(),
                vec![
                    Modify::Removed(Attribute::Class, class.into()),
                    Modify::Purged(Attribute::GidNumber),
                ],
            )
        }
        Op::Delete { t } => w.internal_delete(&live_uuid_filter(t.uuid())),
        Op::Revive { t } => {
            let f = uuid_filter(t.uuid())
                .validate(w.get_schema())
                .map_err(OperationError::SchemaViolation)?
                .into_recycled();
            w.revive_recycled(&ReviveRecycledEvent {
                ident: ident::internal(),
                filter: f,
            })
        }
        Op::PurgeRecycled => w.purge_recycled().map(|_| ()),
        Op::PurgeTombstones => w.purge_tombstones().map(|_| ()),
        // immediate=false: the immediate mode prints progress to stdout
        Op::Reindex => w.reindex(false),
        Op::Advance { .. } => Ok(()),
        Op::DomainRename { i } => w.danger_domain_rename(DOMAINS[*i as usize % DOMAINS.len()]),
        Op::BadSingleMulti { t } => modify(
            w,
            t.uuid(),
            vec![
                Modify::Present(Attribute::DisplayName, Value::new_utf8s("one")),
                Modify::Present(Attribute::DisplayName, Value::new_utf8s("two")),
            ],
        ),
        Op::BadUnknownClass { t } => modify(
            w,
            t.uuid(),
            vec![Modify::Present(Attribute::Class, Value::new_iutf8("no_such_class"))],
        ),
        Op::BadRemoveMust { t } => modify(w, t.uuid(), vec![Modify::Purged(Attribute::Name)]),
    }
}

/// Run one op as its own transaction on a node. Returns the op's result (Err = rejected and
/// rolled back because the transaction is dropped without commit).
pub async fn apply(node: &mut Node, op: &Op) -> Result<(), OperationError> {
    if let Op::Advance { secs } = op {
        node.clock += *secs as u64;
        return Ok(());
    }
    let mut w = node.qs.write(node.now()).await?;
    apply_in_txn(&mut w, op)?;
    w.commit()?;
    // every committed write moves the clock so that successive txns have distinct times
    node.clock += 1;
    Ok(())
}

// ---------------------------------------------------------------------------------------------
// generation

#[derive(Debug, Clone)]
pub struct Weights {
    pub create: u32,
    pub rename: u32,
    pub attr: u32,
    pub member: u32,
    pub manager: u32,
    pub oauth2: u32,
    pub dyngroup: u32,
    pub posix: u32,
    pub delete: u32,
    pub revive: u32,
    pub purge: u32,
    pub reindex: u32,
    pub advance: u32,
    pub domain_rename: u32,
    pub bad: u32,
    /// members may reference missing targets
    pub missing_refs: bool,
    /// sizes of the population actually used
    pub persons: u8,
    pub services: u8,
    pub groups: u8,
    /// clock steps (seconds) to draw Advance from
    pub time_grid: Vec<u32>,
}

impl Default for Weights {
    fn default() -> Self {
        Weights {
            create: 10,
            rename: 4,
            attr: 4,
            member: 8,
            manager: 1,
            oauth2: 1,
            dyngroup: 1,
            posix: 2,
            delete: 4,
            revive: 3,
            purge: 1,
            reindex: 1,
            advance: 2,
            domain_rename: 0,
            bad: 2,
            missing_refs: true,
            persons: 4,
            services: 2,
            groups: 6,
            time_grid: vec![1, 60, 3600, 86_400, 7 * 86_400 - 1, 7 * 86_400, 7 * 86_400 + 1, 8 * 86_400],
        }
    }
}

pub fn arb_ref(w: &Weights, groups_only: bool, allow_missing: bool) -> BoxedStrategy<Ref> {
    let mut opts: Vec<(u32, BoxedStrategy<Ref>)> = vec![(6, (0..w.groups.max(1)).prop_map(Ref::G).boxed())];
    if !groups_only {
        opts.push((5, (0..w.persons.max(1)).prop_map(Ref::P).boxed()));
        if w.services > 0 {
            opts.push((2, (0..w.services).prop_map(Ref::S).boxed()));
        }
    }
    if w.dyngroup > 0 {
        opts.push((1, (0..N_DYN).prop_map(Ref::D).boxed()));
    }
    if w.oauth2 > 0 && !groups_only {
        opts.push((1, (0..N_OAUTH).prop_map(Ref::O).boxed()));
    }
    if allow_missing && w.missing_refs {
        opts.push((1, Just(Ref::Missing).boxed()));
    }
    proptest::strategy::Union::new_weighted(opts).boxed()
}

pub fn arb_op(w: &Weights) -> BoxedStrategy<Op> {
    let any = arb_ref(w, false, false);
    let anym = arb_ref(w, false, true);
    let grp = arb_ref(w, true, false);
    let name = 0u8..NAMES.len() as u8;
    let attr = prop_oneof![
        Just(AttrK::Description),
        Just(AttrK::DisplayName),
        Just(AttrK::Mail),
        Just(AttrK::LegalName),
        Just(AttrK::GidNumber)
    ];
    let grid = w.time_grid.clone();
    let mut opts: Vec<(u32, BoxedStrategy<Op>)> = Vec::new();
    let mut push = |wt: u32, s: BoxedStrategy<Op>| {
        if wt > 0 {
            opts.push((wt, s));
        }
    };
    push(
        w.create,
        prop_oneof![
            4 => (0..w.persons.max(1), name.clone()).prop_map(|(i, name)| Op::CreatePerson { i, name }),
            1 => (0..w.services.max(1), name.clone()).prop_map(|(i, name)| Op::CreateService { i, name }),
            5 => (0..w.groups.max(1), name.clone(), proptest::collection::vec(anym.clone(), 0..4))
                .prop_map(|(i, name, members)| Op::CreateGroup { i, name, members }),
            1 => name.clone().prop_map(|name| Op::CreateAnonGroup { name }),
        ]
        .boxed(),
    );
    push(w.rename, (any.clone(), name.clone()).prop_map(|(t, name)| Op::Rename { t, name }).boxed());
    push(
        w.attr,
        prop_oneof![
            3 => (any.clone(), attr.clone(), proptest::collection::vec(0u8..4, 0..3)).prop_map(|(t, attr, vals)| Op::SetAttr { t, attr, vals }),
            2 => (any.clone(), attr.clone(), 0u8..4).prop_map(|(t, attr, val)| Op::AddAttr { t, attr, val }),
            1 => (any.clone(), attr.clone()).prop_map(|(t, attr)| Op::PurgeAttr { t, attr }),
        ]
        .boxed(),
    );
    push(
        w.member,
        prop_oneof![
            5 => (grp.clone(), anym.clone()).prop_map(|(g, m)| Op::AddMember { g, m }),
            3 => (grp.clone(), any.clone()).prop_map(|(g, m)| Op::RemoveMember { g, m }),
            2 => (grp.clone(), proptest::collection::vec(anym.clone(), 0..4)).prop_map(|(g, members)| Op::SetMembers { g, members }),
        ]
        .boxed(),
    );
    push(w.manager, (any.clone(), anym.clone()).prop_map(|(t, by)| Op::SetManager { t, by }).boxed());
    push(
        w.oauth2,
        prop_oneof![
            (0..N_OAUTH, name.clone(), arb_ref(w, true, true)).prop_map(|(i, name, group)| Op::CreateOAuth2 { i, name, group }),
            (0..N_OAUTH, arb_ref(w, true, true)).prop_map(|(o, group)| Op::SetScopeMap { o, group }),
        ]
        .boxed(),
    );
    push(
        w.dyngroup,
        prop_oneof![
            (0..N_DYN, name.clone(), 0u8..6).prop_map(|(i, name, filter)| Op::CreateDynGroup { i, name, filter }),
            (0..N_DYN, 0u8..6).prop_map(|(d, filter)| Op::SetDynFilter { d, filter }),
        ]
        .boxed(),
    );
    push(
        w.posix,
        prop_oneof![
            3 => (any.clone(), proptest::option::of(0u8..4)).prop_map(|(t, gid)| Op::EnablePosix { t, gid }),
            1 => any.clone().prop_map(|t| Op::DisablePosix { t }),
        ]
        .boxed(),
    );
    push(w.delete, any.clone().prop_map(|t| Op::Delete { t }).boxed());
    push(w.revive, any.clone().prop_map(|t| Op::Revive { t }).boxed());
    push(w.purge, prop_oneof![Just(Op::PurgeRecycled), Just(Op::PurgeTombstones)].boxed());
    push(w.reindex, Just(Op::Reindex).boxed());
    push(
        w.advance,
        proptest::sample::select(grid).prop_map(|secs| Op::Advance { secs }).boxed(),
    );
    push(w.domain_rename, (0u8..3).prop_map(|i| Op::DomainRename { i }).boxed());
    push(
        w.bad,
        prop_oneof![
            any.clone().prop_map(|t| Op::BadSingleMulti { t }),
            any.clone().prop_map(|t| Op::BadUnknownClass { t }),
            any.clone().prop_map(|t| Op::BadRemoveMust { t }),
        ]
        .boxed(),
    );
    proptest::strategy::Union::new_weighted(opts).boxed()
}

/// A population prefix: most persons/services/groups are created up front (each with probability
/// ~0.8, groups with random member lists), so that later ops mostly hit existing targets.
pub fn arb_prefix(w: &Weights) -> BoxedStrategy<Vec<Op>> {
    let anym = arb_ref(w, false, true);
    let np = w.persons as usize;
    let ns = w.services as usize;
    let ng = w.groups as usize;
    (
        proptest::collection::vec((proptest::bool::weighted(0.8), 0u8..NAMES.len() as u8), np),
        proptest::collection::vec((proptest::bool::weighted(0.6), 0u8..NAMES.len() as u8), ns),
        proptest::collection::vec(
            (proptest::bool::weighted(0.8), 0u8..NAMES.len() as u8, proptest::collection::vec(anym, 0..4)),
            ng,
        ),
    )
        .prop_map(|(ps, ss, gs)| {
            let mut out = Vec::new();
            // Names in the prefix are position-derived (distinct) so these creates succeed; the
            // generated `name` only perturbs them rarely (1 in 8) to keep collisions in play.
            let mut pos = 0u8;
            let mut pick = |gen: u8| {
                let n = if gen % 8 == 0 { gen } else { pos };
                pos += 1;
                n % NAMES.len() as u8
            };
            for (i, (on, name)) in ps.into_iter().enumerate() {
                let name = pick(name);
                if on {
                    out.push(Op::CreatePerson { i: i as u8, name });
                }
            }
            for (i, (on, name)) in ss.into_iter().enumerate() {
                let name = pick(name);
                if on {
                    out.push(Op::CreateService { i: i as u8, name });
                }
            }
            // members may reference groups created later in the prefix (rejected then: also a case)
            for (i, (on, name, mut members)) in gs.into_iter().enumerate() {
                let name = pick(name);
                // only backward group references in the prefix (deeper nesting and cycles are built
                // by AddMember/SetMembers later); a Missing member makes the create fail on purpose
                members.retain(|m| match m {
                    Ref::G(j) => (*j as usize) < i,
                    Ref::D(_) | Ref::O(_) => false,
                    _ => true,
                });
                if on {
                    out.push(Op::CreateGroup { i: i as u8, name, members });
                }
            }
            out
        })
        .boxed()
}

/// Single-server history: population prefix followed by `len` random ops.
pub fn arb_history(w: &Weights, len: std::ops::Range<usize>) -> BoxedStrategy<Vec<Op>> {
    (arb_prefix(w), proptest::collection::vec(arb_op(w), len))
        .prop_map(|(mut p, mut o)| {
            p.append(&mut o);
            p
        })
        .boxed()
}

/// Multi-replica history: ops on random replicas interleaved with replication steps.
pub fn arb_steps(w: &Weights, replicas: u8, len: std::ops::Range<usize>, repl_weight: u32, refresh_weight: u32) -> BoxedStrategy<Vec<Step>> {
    let op = arb_op(w);
    let r = 0..replicas;
    let pair = (0..replicas, 0..replicas).prop_filter_map("distinct", |(a, b)| if a != b { Some((a, b)) } else { None });
    let mut opts: Vec<(u32, BoxedStrategy<Step>)> = vec![(10, (r, op).prop_map(|(r, op)| Step::Do { r, op }).boxed())];
    if repl_weight > 0 && replicas > 1 {
        opts.push((repl_weight, pair.clone().prop_map(|(from, to)| Step::Repl { from, to }).boxed()));
    }
    if refresh_weight > 0 && replicas > 1 {
        opts.push((refresh_weight, pair.prop_map(|(from, to)| Step::Refresh { from, to }).boxed()));
    }
    let body = proptest::collection::vec(proptest::strategy::Union::new_weighted(opts), len);
    (arb_prefix(w), body)
        .prop_map(move |(p, mut b)| {
            let mut out: Vec<Step> = p.into_iter().map(|op| Step::Do { r: 0, op }).collect();
            for to in 1..replicas {
                out.push(Step::Repl { from: 0, to });
            }
            out.append(&mut b);
            out
        })
        .boxed()
}

/// Labels describing what a history contains (for class histograms).
pub fn labels(ops: &[Op]) -> BTreeSet<String> {
    let mut out = BTreeSet::new();
    let mut deleted: BTreeSet<Ref> = BTreeSet::new();
    let mut revived: BTreeSet<Ref> = BTreeSet::new();
    let mut seen_delete = false;
    for op in ops {
        match op {
            Op::Delete { t } => {
                seen_delete = true;
                deleted.insert(*t);
                out.insert("delete".into());
            }
            Op::Revive { t } => {
                if deleted.contains(t) {
                    out.insert("revive-after-delete".into());
                    revived.insert(*t);
                }
            }
            Op::Rename { t, .. } => {
                out.insert("rename".into());
                if revived.contains(t) {
                    out.insert("rename-after-revive".into());
                }
            }
            Op::Reindex => {
                if seen_delete {
                    out.insert("reindex-after-delete".into());
                }
            }
            Op::PurgeRecycled => {
                out.insert("purge-recycled".into());
            }
            Op::PurgeTombstones => {
                out.insert("purge-tombstones".into());
            }
            Op::RemoveMember { .. } | Op::SetMembers { .. } => {
                out.insert("member-removal".into());
            }
            Op::DomainRename { .. } => {
                out.insert("domain-rename".into());
            }
            _ => {}
        }
    }
    out
}
