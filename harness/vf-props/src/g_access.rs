//! Helpers of group 'access' (C23, C24, C25): identities, requests made *as a user*, the
//! high-privilege closure, and an independent grant model that interprets the access control
//! profile ENTRIES stored in the database (never the server's access module).
use crate::fil::{self, MEntry, F};
use kanidmd_lib::entry::{Entry, EntryCommitted, EntrySealed};
use kanidmd_lib::prelude::*;
use kanidmd_lib::verif_hooks::ident;
use std::collections::{BTreeMap, BTreeSet};
use std::sync::Arc;

pub type SEntry = Arc<Entry<EntrySealed, EntryCommitted>>;

pub fn uuid_filter_all(u: Uuid) -> Filter<FilterInvalid> {
    Filter::new(f_eq(Attribute::Uuid, PartialValue::Uuid(u)))
}

/// Identity of the stored entry `u` with the given scope (memberof is taken from the stored entry,
/// exactly as the server does when it builds an identity from an account entry).
pub fn ident_of<'a, T: QueryServerTransaction<'a>>(txn: &mut T, u: Uuid, readwrite: bool) -> Result<Identity, OperationError> {
    let e = txn.internal_search_uuid(u)?;
    Ok(if readwrite {
        ident::user_readwrite(e)
    } else {
        ident::user_readonly(e)
    })
}

/// A modify request made as `ident` on exactly the entry `target` (external-style: hidden entries
/// are masked from the executed filter, the original filter is what access control sees).
pub fn modify_as(w: &mut QueryServerWriteTransaction<'_>, ident: &Identity, target: Uuid, mods: Vec<Modify>) -> Result<(), OperationError> {
    let ml = ModifyList::new_list(mods);
    let me = ModifyEvent::from_internal_parts(ident.clone(), &ml, &uuid_filter_all(target), w)?;
    w.modify(&me)
}

/// The outcome classes of a write attempt that the checks distinguish.
#[derive(Debug, Clone, Copy, PartialEq, Eq, PartialOrd, Ord)]
pub enum WriteOutcome {
    /// the operation was applied
    Applied,
    /// refused by the write access decision
    Denied,
    /// the target is not visible to the caller (search access), so nothing was attempted
    NotVisible,
    /// any other error (schema, plugin, ...): reached code behind the access decision or failed before it
    Other,
}

pub fn classify<T>(r: &Result<T, OperationError>) -> WriteOutcome {
    match r {
        Ok(_) => WriteOutcome::Applied,
        Err(OperationError::AccessDenied) | Err(OperationError::NotAuthorised) => WriteOutcome::Denied,
        Err(OperationError::NoMatchingEntries) => WriteOutcome::NotVisible,
        Err(_) => WriteOutcome::Other,
    }
}

/// Plain-data view of all stored entries (attribute -> proto strings).
pub fn mentries(entries: &[SEntry]) -> Vec<MEntry> {
    entries.iter().map(|e| MEntry::from_entry(e)).collect()
}

fn uuids_of(m: &MEntry, attr: &str) -> Vec<Uuid> {
    m.get(attr)
        .map(|vs| vs.iter().filter_map(|s| Uuid::parse_str(s).ok()).collect())
        .unwrap_or_default()
}

pub fn has_class(m: &MEntry, c: &str) -> bool {
    m.get("class").map(|s| s.contains(c)).unwrap_or(false)
}

pub fn is_live(m: &MEntry) -> bool {
    !has_class(m, "recycled") && !has_class(m, "tombstone")
}

/// Everything that is (directly or transitively) a member of `root`: BFS over the stored
/// `member` and `dynmember` edges of live groups. `root` itself is included only if it is reachable
/// from itself. Independent of the server's memberof attribute.
pub fn member_closure(all: &[MEntry], root: Uuid) -> BTreeSet<Uuid> {
    let by: BTreeMap<Uuid, &MEntry> = all.iter().filter(|m| is_live(m)).map(|m| (m.uuid, m)).collect();
    let mut seen = BTreeSet::new();
    let mut todo = vec![root];
    while let Some(g) = todo.pop() {
        let Some(m) = by.get(&g) else { continue };
        if !has_class(m, "group") {
            continue;
        }
        for c in uuids_of(m, "member").into_iter().chain(uuids_of(m, "dynmember")) {
            if by.contains_key(&c) && seen.insert(c) {
                todo.push(c);
            }
        }
    }
    seen
}

/// Groups (transitively) containing `who`, by BFS over stored member/dynmember edges.
pub fn groups_of(all: &[MEntry], who: Uuid) -> BTreeSet<Uuid> {
    let live: Vec<&MEntry> = all.iter().filter(|m| is_live(m) && has_class(m, "group")).collect();
    let mut out = BTreeSet::new();
    let mut todo = vec![who];
    while let Some(x) = todo.pop() {
        for g in &live {
            if (uuids_of(g, "member").contains(&x) || uuids_of(g, "dynmember").contains(&x)) && out.insert(g.uuid) {
                todo.push(g.uuid);
            }
        }
    }
    out
}

pub fn name_of(m: &MEntry) -> String {
    m.get("name").and_then(|s| s.iter().next().cloned()).unwrap_or_else(|| m.uuid.to_string())
}

// ---------------------------------------------------------------------------------------------
// Grant model (C23 / C24): interpretation of the stored access control profile entries.
// ---------------------------------------------------------------------------------------------

/// Translation of the JSON text of a stored `acp_targetscope` (proto filter) into the harness AST.
pub fn f_of_proto_json(v: &serde_json::Value) -> Option<F> {
    if v.as_str() == Some("self") {
        return Some(F::SelfUuid);
    }
    let o = v.as_object()?;
    if o.len() != 1 {
        return None;
    }
    let (k, body) = o.iter().next()?;
    let pair = |b: &serde_json::Value| -> Option<(String, String)> {
        let a = b.as_array()?;
        Some((a.first()?.as_str()?.to_lowercase(), a.get(1)?.as_str()?.to_string()))
    };
    Some(match k.as_str() {
        "eq" => {
            let (a, v) = pair(body)?;
            F::Eq(a, v)
        }
        "cnt" => {
            let (a, v) = pair(body)?;
            F::Cnt(a, v)
        }
        "pres" => F::Pres(body.as_str()?.to_lowercase()),
        "or" => F::Or(body.as_array()?.iter().map(f_of_proto_json).collect::<Option<Vec<_>>>()?),
        "and" => F::And(body.as_array()?.iter().map(f_of_proto_json).collect::<Option<Vec<_>>>()?),
        "andnot" => F::Not(Box::new(f_of_proto_json(body)?)),
        "self" => F::SelfUuid,
        _ => return None,
    })
}

pub fn f_of_proto_str(s: &str) -> Option<F> {
    if s.trim() == "\"self\"" {
        return Some(F::SelfUuid);
    }
    let v: serde_json::Value = serde_json::from_str(s).ok()?;
    if v.as_str() == Some("self") {
        return Some(F::SelfUuid);
    }
    f_of_proto_json(&v)
}

pub use fil::eval as eval_filter;

#[derive(Debug, Clone, PartialEq, Eq)]
pub enum Recv {
    Groups(BTreeSet<Uuid>),
    EntryManager,
    None,
}

/// One stored access control profile, as plain data.
#[derive(Debug, Clone)]
pub struct Acp {
    pub name: String,
    pub uuid: Uuid,
    pub enabled: bool,
    pub receiver: Recv,
    /// None = no target class (grants nothing); Some(None) = target present but not understood by
    /// the model (treated as matching everything: permissive); Some(Some(f)) = parsed scope.
    pub target: Option<Option<F>>,
    pub search: bool,
    pub modify: bool,
    pub create: bool,
    pub delete: bool,
    pub search_attrs: BTreeSet<String>,
    pub mod_pres_attrs: BTreeSet<String>,
    pub mod_rem_attrs: BTreeSet<String>,
    pub mod_pres_classes: BTreeSet<String>,
    pub mod_rem_classes: BTreeSet<String>,
    pub create_attrs: BTreeSet<String>,
    pub create_classes: BTreeSet<String>,
}

fn strs(m: &MEntry, a: &str) -> BTreeSet<String> {
    m.get(a).cloned().unwrap_or_default()
}

/// All live access control profile entries of the database.
pub fn acps_of(all: &[MEntry]) -> Vec<Acp> {
    let mut out = Vec::new();
    for m in all.iter().filter(|m| is_live(m) && has_class(m, "access_control_profile")) {
        let receiver = if has_class(m, "access_control_receiver_group") {
            Recv::Groups(uuids_of(m, "acp_receiver_group").into_iter().collect())
        } else if has_class(m, "access_control_receiver_entry_manager") {
            Recv::EntryManager
        } else {
            Recv::None
        };
        let target = if has_class(m, "access_control_target_scope") {
            Some(m.get("acp_targetscope").and_then(|s| s.iter().next()).and_then(|s| f_of_proto_str(s)))
        } else {
            None
        };
        let mut search_attrs = strs(m, "acp_search_attr");
        if search_attrs.contains("memberof") {
            // documented: the ability to read memberof implies directmemberof
            search_attrs.insert("directmemberof".into());
        }
        let classes = strs(m, "acp_modify_class");
        let pc = m.get("acp_modify_present_class").cloned().unwrap_or_else(|| classes.clone());
        let rc = m.get("acp_modify_remove_class").cloned().unwrap_or_else(|| classes.clone());
        out.push(Acp {
            name: name_of(m),
            uuid: m.uuid,
            enabled: !m.get("acp_enable").map(|s| s.contains("false")).unwrap_or(false),
            receiver,
            target,
            search: has_class(m, "access_control_search"),
            modify: has_class(m, "access_control_modify"),
            create: has_class(m, "access_control_create"),
            delete: has_class(m, "access_control_delete"),
            search_attrs,
            mod_pres_attrs: strs(m, "acp_modify_presentattr"),
            mod_rem_attrs: strs(m, "acp_modify_removedattr"),
            mod_pres_classes: pc,
            mod_rem_classes: rc,
            create_attrs: strs(m, "acp_create_attr"),
            create_classes: strs(m, "acp_create_class"),
        });
    }
    out
}

/// The caller, as the model sees it.
#[derive(Debug, Clone)]
pub struct Who {
    pub uuid: Uuid,
    /// groups by own BFS over stored member/dynmember edges, united with the stored memberof
    /// (the more permissive of the two readings of "is a member of")
    pub groups: BTreeSet<Uuid>,
    pub anonymous: bool,
}

pub fn who_of(all: &[MEntry], uuid: Uuid) -> Who {
    let mut groups = groups_of(all, uuid);
    if let Some(me) = all.iter().find(|m| m.uuid == uuid) {
        groups.extend(uuids_of(me, "memberof"));
    }
    Who {
        uuid,
        groups,
        anonymous: uuid == UUID_ANONYMOUS,
    }
}

impl Acp {
    pub fn receiver_matches(&self, who: &Who, e: &MEntry) -> bool {
        match &self.receiver {
            Recv::Groups(g) => g.iter().any(|x| who.groups.contains(x)),
            Recv::EntryManager => uuids_of(e, "entry_managed_by")
                .iter()
                .any(|m| *m == who.uuid || who.groups.contains(m)),
            Recv::None => false,
        }
    }
    pub fn target_matches(&self, who: &Who, e: &MEntry) -> bool {
        match &self.target {
            None => false,
            Some(None) => true,
            Some(Some(f)) => fil::eval(f, e, Some(who.uuid)),
        }
    }
    pub fn applies(&self, who: &Who, e: &MEntry) -> bool {
        self.enabled && self.receiver_matches(who, e) && self.target_matches(who, e)
    }
}

fn set_of(l: &[&str]) -> BTreeSet<String> {
    l.iter().map(|s| s.to_string()).collect()
}

/// Attributes of `e` that `who` may read: union over applicable search profiles plus the built-in
/// visibility rules (OAuth2 client for holders of a mapped scope, application for members of its
/// linked group, sync account for its own synchronised accounts).
pub fn search_allowed(acps: &[Acp], who: &Who, e: &MEntry, all: &[MEntry]) -> BTreeSet<String> {
    let mut out = BTreeSet::new();
    for a in acps.iter().filter(|a| a.search && a.applies(who, e)) {
        out.extend(a.search_attrs.iter().cloned());
    }
    if !who.anonymous {
        if has_class(e, "oauth2_resource_server") {
            let keys = e
                .get("oauth2_rs_scope_map")
                .into_iter()
                .flatten()
                .filter_map(|s| s.get(..36).and_then(|u| Uuid::parse_str(u).ok()));
            if keys.into_iter().any(|k| who.groups.contains(&k)) {
                out.extend(set_of(&["class", "displayname", "uuid", "name", "oauth2_rs_origin_landing", "image"]));
            }
        }
        if has_class(e, "application") && uuids_of(e, "linked_group").iter().any(|g| who.groups.contains(g)) {
            out.extend(set_of(&["class", "displayname", "uuid", "name", "linked_group"]));
        }
        if has_class(e, "sync_account") {
            if let Some(me) = all.iter().find(|m| m.uuid == who.uuid) {
                if has_class(me, "sync_object") && has_class(me, "account") && uuids_of(me, "sync_parent_uuid").contains(&e.uuid) {
                    out.extend(set_of(&["class", "uuid", "sync_credential_portal"]));
                }
            }
        }
    }
    out
}

// ---------------------------------------------------------------------------------------------
// Generated worlds shared by C23 and C24.
// ---------------------------------------------------------------------------------------------
pub mod world {
    use crate::fil::{Alphabet, F};
    use crate::pop::{self, Kind};
    use crate::srv::{self, ct};
    use crate::ops;
    use kanidmd_lib::prelude::*;
    use kanidmd_lib::value::Value;
    use proptest::prelude::*;
    use serde::{Deserialize, Serialize};

pub const P_NAMES: [&str; 5] = ["anna", "annabel", "bob", "carl", "dora"];
pub const S_NAMES: [&str; 2] = ["svc_a", "svc_ab"];
pub const G_NAMES: [&str; 5] = ["grp_a", "grp_ab", "grp_b", "grp_c", "grp_d"];
pub const O_NAMES: [&str; 1] = ["oa_x"];
pub const ATTR_POOL: [&str; 12] = [
    "class",
    "name",
    "uuid",
    "displayname",
    "description",
    "mail",
    "legalname",
    "gidnumber",
    "member",
    "memberof",
    "entry_managed_by",
    "spn",
];
/// shipped groups that generated accounts may be put into (index = role id)
pub const ROLES: [Uuid; 7] = [
    UUID_IDM_PEOPLE_PII_READ,
    UUID_IDM_ACCOUNT_MAIL_READ,
    UUID_IDM_UNIX_AUTHENTICATION_READ,
    UUID_IDM_GROUP_ADMINS,
    UUID_IDM_RECYCLE_BIN_ADMINS,
    UUID_IDM_RADIUS_SERVERS,
    UUID_IDM_PEOPLE_ADMINS,
];

#[derive(Debug, Clone, Copy, PartialEq, Eq, Hash, PartialOrd, Ord, Serialize, Deserialize)]
pub enum Ent {
    P(u8),
    S(u8),
    G(u8),
    O(u8),
}

#[derive(Debug, Clone, PartialEq, Eq, Serialize, Deserialize)]
pub struct ESpec {
    pub desc: Option<u8>,
    pub mail: bool,
    pub legal: Option<u8>,
    pub gid: bool,
    pub mgr: Option<Ent>,
    /// 0 live, 1 recycled, 2 tombstone
    pub state: u8,
    pub roles: Vec<u8>,
    pub members: Vec<Ent>,
}


#[derive(Debug, Clone, PartialEq, Eq, Serialize, Deserialize)]
pub struct Pop {
    pub persons: Vec<ESpec>,
    pub services: Vec<ESpec>,
    pub groups: Vec<ESpec>,
    pub oauth2: Vec<u8>,
}

pub fn arb_pop() -> impl Strategy<Value = Pop> {
    (
        proptest::collection::vec(arb_espec(false), 3..=5),
        proptest::collection::vec(arb_espec(false), 1..=2),
        proptest::collection::vec(arb_espec(true), 3..=5),
        proptest::collection::vec(0u8..5, 0..=1),
    )
        .prop_map(|(persons, services, groups, oauth2)| Pop {
            persons,
            services,
            groups,
            oauth2,
        })
}

/// Every reference of the population points at an entity of this population.
pub fn norm_pop(c: &Pop) -> Pop {
    let mut n = c.clone();
    let fix = |s: &mut ESpec| {
        s.mgr = s.mgr.map(|m| norm_ent(m, c));
        for m in s.members.iter_mut() {
            *m = norm_ent(*m, c);
        }
    };
    n.persons.iter_mut().for_each(fix);
    n.services.iter_mut().for_each(fix);
    n.groups.iter_mut().for_each(fix);
    n
}

pub fn live_spec(e: Ent, c: &Pop) -> bool {
    spec_of(e, c).map(|s| s.state == 0).unwrap_or(true)
}

/// The live accounts of the population, in a fixed order.
pub fn live_accounts(c: &Pop) -> Vec<Ent> {
    let mut accts: Vec<Ent> = (0..c.persons.len() as u8)
        .map(Ent::P)
        .chain((0..c.services.len() as u8).map(Ent::S))
        .filter(|e| live_spec(*e, c))
        .collect();
    accts.sort();
    accts
}

pub fn uuid_of(e: Ent) -> Uuid {
    match e {
        Ent::P(i) => pop::uuid_of(Kind::Person, i as u32 % P_NAMES.len() as u32),
        Ent::S(i) => pop::uuid_of(Kind::Service, i as u32 % S_NAMES.len() as u32),
        Ent::G(i) => pop::uuid_of(Kind::Group, i as u32 % G_NAMES.len() as u32),
        Ent::O(i) => pop::uuid_of(Kind::OAuth2, i as u32 % O_NAMES.len() as u32),
    }
}

// ---- generators ---------------------------------------------------------------------------------

pub fn arb_ent() -> impl Strategy<Value = Ent> {
    prop_oneof![
        3 => (0u8..5).prop_map(Ent::P),
        1 => (0u8..2).prop_map(Ent::S),
        3 => (0u8..5).prop_map(Ent::G),
    ]
}

pub fn arb_espec(group: bool) -> impl Strategy<Value = ESpec> {
    (
        proptest::option::weighted(0.6, 0u8..4),
        proptest::bool::weighted(0.6),
        proptest::option::weighted(0.4, 0u8..4),
        proptest::bool::weighted(0.4),
        proptest::option::weighted(0.45, arb_ent()),
        prop_oneof![8 => Just(0u8), 2 => Just(1u8), 1 => Just(2u8)],
        proptest::collection::vec(0u8..ROLES.len() as u8, 0..3),
        proptest::collection::vec(arb_ent(), if group { 0..4 } else { 0..1 }),
    )
        .prop_map(|(desc, mail, legal, gid, mgr, state, roles, members)| ESpec {
            desc,
            mail,
            legal,
            gid,
            mgr,
            state,
            roles,
            members,
        })
}

pub fn alphabet() -> Alphabet {
    let u = |e: Ent| uuid_of(e).as_hyphenated().to_string();
    let own = |v: Vec<String>| -> Vec<String> { v };
    let mut al = Alphabet {
        attrs: vec![
            (
                "class".into(),
                own(vec!["person".into(), "group".into(), "account".into(), "service_account".into(), "recycled".into(), "oauth2_resource_server".into()]),
            ),
            ("name".into(), own(vec!["anna".into(), "annabel".into(), "bob".into(), "grp_a".into(), "svc_a".into()])),
            ("description".into(), ops::DESCS.iter().map(|s| s.to_string()).collect()),
            ("displayname".into(), own(vec!["anna".into(), "bob".into(), "grp".into()])),
            ("mail".into(), own(vec!["anna@example.com".into(), "bob@example.com".into()])),
            ("legalname".into(), ops::DESCS.iter().map(|s| s.to_string()).collect()),
            ("gidnumber".into(), own(vec!["70000".into(), "70002".into(), "70011".into()])),
            ("memberof".into(), vec![u(Ent::G(0)), u(Ent::G(1)), UUID_IDM_PEOPLE_PII_READ.as_hyphenated().to_string()]),
            ("member".into(), vec![u(Ent::P(0)), u(Ent::P(2)), u(Ent::G(1))]),
            ("entry_managed_by".into(), vec![u(Ent::P(0)), u(Ent::G(0)), u(Ent::G(2))]),
            ("uuid".into(), vec![u(Ent::P(0)), u(Ent::P(1)), u(Ent::G(0)), u(Ent::S(0))]),
        ],
        stw_enw: true,
        self_uuid: true,
        invalid: false,
        empty_groups: false,
    };
    al.self_uuid = true;
    al
}

pub fn norm_ent(e: Ent, c: &Pop) -> Ent {
    match e {
        Ent::P(i) => Ent::P(i % c.persons.len() as u8),
        Ent::S(i) => Ent::S(i % c.services.len() as u8),
        Ent::G(i) => Ent::G(i % c.groups.len() as u8),
        Ent::O(i) => {
            if c.oauth2.is_empty() {
                Ent::G(i % c.groups.len() as u8)
            } else {
                Ent::O(i % c.oauth2.len() as u8)
            }
        }
    }
}

pub fn spec_of<'a>(e: Ent, c: &'a Pop) -> Option<&'a ESpec> {
    match e {
        Ent::P(i) => c.persons.get(i as usize),
        Ent::S(i) => c.services.get(i as usize),
        Ent::G(i) => c.groups.get(i as usize),
        Ent::O(_) => None,
    }
}

pub fn no_empty_groups(f: &F) -> F {
    match f {
        F::And(l) if l.is_empty() => F::Pres("class".into()),
        F::Or(l) if l.is_empty() => F::Eq("class".into(), "no_such_class".into()),
        F::And(l) => F::And(l.iter().map(no_empty_groups).collect()),
        F::Or(l) => F::Or(l.iter().map(no_empty_groups).collect()),
        F::Not(x) => F::Not(Box::new(no_empty_groups(x))),
        other => other.clone(),
    }
}

pub fn decorate(mut e: pop::NewEntry, s: &ESpec, name: &str, gid: u32, posix: EntryClass, person: bool) -> pop::NewEntry {
    if let Some(d) = s.desc {
        e.add_ava(Attribute::Description, Value::new_utf8s(ops::DESCS[d as usize % ops::DESCS.len()]));
    }
    if person {
        if s.mail {
            e.add_ava(Attribute::Mail, Value::new_email_address_primary_s(&format!("{name}@example.com")).expect("mail"));
        }
        if let Some(l) = s.legal {
            e.add_ava(Attribute::LegalName, Value::new_utf8s(ops::DESCS[l as usize % ops::DESCS.len()]));
        }
    }
    if s.gid {
        e.add_ava(Attribute::Class, posix.to_value());
        e.add_ava(Attribute::GidNumber, Value::Uint32(gid));
    }
    e
}

/// Proto (JSON) form of a generated target scope. Stw/Enw/Lt are not expressible: mapped to Cnt / Pres.
pub fn proto_of(f: &F) -> Option<ProtoFilter> {
    Some(match f {
        F::Eq(a, v) => ProtoFilter::Eq(a.clone(), v.clone()),
        F::Cnt(a, v) | F::Stw(a, v) | F::Enw(a, v) => ProtoFilter::Cnt(a.clone(), v.clone()),
        F::Pres(a) | F::Lt(a, _) => ProtoFilter::Pres(a.clone()),
        F::And(l) => ProtoFilter::And(l.iter().map(proto_of).collect::<Option<Vec<_>>>()?),
        F::Or(l) => ProtoFilter::Or(l.iter().map(proto_of).collect::<Option<Vec<_>>>()?),
        F::Not(x) => ProtoFilter::AndNot(Box::new(proto_of(x)?)),
        F::SelfUuid => ProtoFilter::SelfUuid,
        F::Invalid(_) => return None,
    })
}

/// Build a server holding the population; `extra` runs inside the last write transaction (after the
/// recycled entries were deleted), e.g. to add generated access control profiles.
pub async fn build_population<X>(c: &Pop, extra: X) -> Result<QueryServer, String>
where
    X: FnOnce(&mut QueryServerWriteTransaction<'_>) -> Result<(), String>,
{
    let qs = srv::new_qs().await;
    let err = |s: &str, e: OperationError| format!("{s}: {e:?}");
    let mut all_specs: Vec<(Ent, &ESpec)> = Vec::new();
    {
        let mut w = qs.write(ct(1)).await.map_err(|e| err("write", e))?;
        let mut ents = Vec::new();
        for (i, s) in c.persons.iter().enumerate() {
            let n = P_NAMES[i];
            ents.push(decorate(pop::person(uuid_of(Ent::P(i as u8)), n), s, n, 70000 + i as u32, EntryClass::PosixAccount, true));
            all_specs.push((Ent::P(i as u8), s));
        }
        for (i, s) in c.services.iter().enumerate() {
            let n = S_NAMES[i];
            ents.push(decorate(pop::service(uuid_of(Ent::S(i as u8)), n), s, n, 70010 + i as u32, EntryClass::PosixAccount, false));
            all_specs.push((Ent::S(i as u8), s));
        }
        let exists = |e: &Ent| match e {
            Ent::P(i) => (*i as usize) < c.persons.len(),
            Ent::S(i) => (*i as usize) < c.services.len(),
            Ent::G(i) => (*i as usize) < c.groups.len(),
            Ent::O(i) => (*i as usize) < c.oauth2.len(),
        };
        for (i, s) in c.groups.iter().enumerate() {
            let n = G_NAMES[i];
            let ms: Vec<Uuid> = s.members.iter().filter(|m| exists(m)).map(|m| uuid_of(*m)).collect();
            ents.push(decorate(pop::group(uuid_of(Ent::G(i as u8)), n, &ms), s, n, 70020 + i as u32, EntryClass::PosixGroup, false));
            all_specs.push((Ent::G(i as u8), s));
        }
        for (i, g) in c.oauth2.iter().enumerate() {
            let mut e: pop::NewEntry = kanidmd_lib::entry::Entry::new();
            e.add_ava(Attribute::Class, EntryClass::Object.to_value());
            e.add_ava(Attribute::Class, EntryClass::Account.to_value());
            e.add_ava(Attribute::Class, EntryClass::OAuth2ResourceServer.to_value());
            e.add_ava(Attribute::Class, EntryClass::OAuth2ResourceServerBasic.to_value());
            e.add_ava(Attribute::Uuid, Value::Uuid(uuid_of(Ent::O(i as u8))));
            e.add_ava(Attribute::Name, Value::new_iname(O_NAMES[i]));
            e.add_ava(Attribute::DisplayName, Value::new_utf8s(O_NAMES[i]));
            e.add_ava(Attribute::OAuth2RsOriginLanding, Value::new_url_s("https://demo.example.com").expect("url"));
            let gi = *g as usize % c.groups.len();
            e.add_ava(
                Attribute::OAuth2RsScopeMap,
                Value::new_oauthscopemap(uuid_of(Ent::G(gi as u8)), ["read".to_string()].into_iter().collect()).expect("scopemap"),
            );
            ents.push(e);
        }
        w.internal_create(ents).map_err(|e| err("create population", e))?;
        // entry managers and shipped-role memberships (second step: targets must exist)
        for (ent, s) in &all_specs {
            if let Some(m) = s.mgr.filter(|m| exists(m)) {
                w.internal_modify(
                    &super::uuid_filter_all(uuid_of(*ent)),
                    &ModifyList::new_list(vec![Modify::Present(Attribute::EntryManagedBy, Value::Refer(uuid_of(m)))]),
                )
                .map_err(|e| err("entry manager", e))?;
            }
            if !matches!(ent, Ent::G(_)) {
                for r in &s.roles {
                    w.internal_modify(
                        &super::uuid_filter_all(ROLES[*r as usize % ROLES.len()]),
                        &ModifyList::new_list(vec![Modify::Present(Attribute::Member, Value::Refer(uuid_of(*ent)))]),
                    )
                    .map_err(|e| err("role", e))?;
                }
            }
        }
        w.commit().map_err(|e| err("commit", e))?;
    }
    // tombstones: delete, then purge after the recycle bin age
    let mut now = 2u64;
    let tomb: Vec<Uuid> = all_specs.iter().filter(|(_, s)| s.state == 2).map(|(e, _)| uuid_of(*e)).collect();
    if !tomb.is_empty() {
        let mut w = qs.write(ct(now)).await.map_err(|e| err("write", e))?;
        for u in &tomb {
            w.internal_delete(&Filter::new_ignore_hidden(f_eq(Attribute::Uuid, PartialValue::Uuid(*u))))
                .map_err(|e| err("delete", e))?;
        }
        w.commit().map_err(|e| err("commit", e))?;
        now += RECYCLEBIN_MAX_AGE + 10;
        let mut w = qs.write(ct(now)).await.map_err(|e| err("write", e))?;
        w.purge_recycled().map_err(|e| err("purge_recycled", e))?;
        w.commit().map_err(|e| err("commit", e))?;
        now += 1;
    }
    {
        let mut w = qs.write(ct(now)).await.map_err(|e| err("write", e))?;
        for (e, s) in &all_specs {
            if s.state == 1 {
                w.internal_delete(&Filter::new_ignore_hidden(f_eq(Attribute::Uuid, PartialValue::Uuid(uuid_of(*e)))))
                    .map_err(|e| err("delete", e))?;
            }
        }
        extra(&mut w)?;
        w.commit().map_err(|e| err("commit", e))?;
    }
    Ok(qs)
}
}

/// Plain-data view of a not yet stored entry (as submitted by a create request).
pub fn mentry_of_new(e: &crate::pop::NewEntry) -> MEntry {
    let mut attrs = BTreeMap::new();
    for (a, vs) in e.get_ava_iter() {
        attrs.insert(a.to_string(), vs.to_proto_string_clone_iter().collect());
    }
    MEntry {
        uuid: e.get_uuid().unwrap_or(Uuid::nil()),
        attrs,
    }
}

/// The stored entry `u` in whatever state (live, recycled, tombstone), as plain data.
pub fn mentry_any<'a, T: QueryServerTransaction<'a>>(txn: &mut T, u: Uuid) -> Option<MEntry> {
    txn.internal_search(uuid_filter_all(u)).ok()?.first().map(|e| MEntry::from_entry(e))
}
