//! Helpers of group 'access' (see GUIDE.md).
