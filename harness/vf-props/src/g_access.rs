//! Helpers of group 'access' (C23, C24, C25): identities, requests made *as a user*, the
//! high-privilege closure, and an independent grant model that interprets the access control
//! profile ENTRIES stored in the database (never the server's access module).
use crate::fil::{self, MEntry, F};
use kanidmd_lib::entry::{Entry, EntryCommitted, EntrySealed};
use kanidmd_lib::prelude::*;
use kanidmd_lib::verif_hooks::ident;
use std::collections::{BTreeMap, BTreeSet};
use std::sync::Arc;

pub type SEntry = Arc<Entry<EntrySealed, EntryCommitted>>;

pub fn uuid_filter_all(u: Uuid) -> Filter<FilterInvalid> {
    Filter::new(f_eq(Attribute::Uuid, PartialValue::Uuid(u)))
}

/// Identity of the stored entry `u` with the given scope (memberof is taken from the stored entry,
/// exactly as the server does when it builds an identity from an account entry).
pub fn ident_of<'a, T: QueryServerTransaction<'a>>(txn: &mut T, u: Uuid, readwrite: bool) -> Result<Identity, OperationError> {
    let e = txn.internal_search_uuid(u)?;
    Ok(if readwrite {
        ident::user_readwrite(e)
    } else {
        ident::user_readonly(e)
    })
}

/// A modify request made as `ident` on exactly the entry `target` (external-style: hidden entries
/// are masked from the executed filter, the original filter is what access control sees).
pub fn modify_as(w: &mut QueryServerWriteTransaction<'_>, ident: &Identity, target: Uuid, mods: Vec<Modify>) -> Result<(), OperationError> {
    let ml = ModifyList::new_list(mods);
    let me = ModifyEvent::from_internal_parts(ident.clone(), &ml, &uuid_filter_all(target), w)?;
    w.modify(&me)
}

/// The outcome classes of a write attempt that the checks distinguish.
#[derive(Debug, Clone, Copy, PartialEq, Eq, PartialOrd, Ord)]
pub enum WriteOutcome {
    /// the operation was applied
    Applied,
    /// refused by the write access decision
    Denied,
    /// the target is not visible to the caller (search access), so nothing was attempted
    NotVisible,
    /// any other error (schema, plugin, ...): reached code behind the access decision or failed before it
    Other,
}

pub fn classify<T>(r: &Result<T, OperationError>) -> WriteOutcome {
    match r {
        Ok(_) => WriteOutcome::Applied,
        Err(OperationError::AccessDenied) | Err(OperationError::NotAuthorised) => WriteOutcome::Denied,
        Err(OperationError::NoMatchingEntries) => WriteOutcome::NotVisible,
        Err(_) => WriteOutcome::Other,
    }
}

/// Plain-data view of all stored entries (attribute -> proto strings).
pub fn mentries(entries: &[SEntry]) -> Vec<MEntry> {
    entries.iter().map(|e| MEntry::from_entry(e)).collect()
}

fn uuids_of(m: &MEntry, attr: &str) -> Vec<Uuid> {
    m.get(attr)
        .map(|vs| vs.iter().filter_map(|s| Uuid::parse_str(s).ok()).collect())
        .unwrap_or_default()
}

pub fn has_class(m: &MEntry, c: &str) -> bool {
    m.get("class").map(|s| s.contains(c)).unwrap_or(false)
}

pub fn is_live(m: &MEntry) -> bool {
    !has_class(m, "recycled") && !has_class(m, "tombstone")
}

/// Everything that is (directly or transitively) a member of `root`: BFS over the stored
/// `member` and `dynmember` edges of live groups. `root` itself is included only if it is reachable
/// from itself. Independent of the server's memberof attribute.
pub fn member_closure(all: &[MEntry], root: Uuid) -> BTreeSet<Uuid> {
    let by: BTreeMap<Uuid, &MEntry> = all.iter().filter(|m| is_live(m)).map(|m| (m.uuid, m)).collect();
    let mut seen = BTreeSet::new();
    let mut todo = vec![root];
    while let Some(g) = todo.pop() {
        let Some(m) = by.get(&g) else { continue };
        if !has_class(m, "group") {
            continue;
        }
        for c in uuids_of(m, "member").into_iter().chain(uuids_of(m, "dynmember")) {
            if by.contains_key(&c) && seen.insert(c) {
                todo.push(c);
            }
        }
    }
    seen
}

/// Groups (transitively) containing `who`, by BFS over stored member/dynmember edges.
pub fn groups_of(all: &[MEntry], who: Uuid) -> BTreeSet<Uuid> {
    let live: Vec<&MEntry> = all.iter().filter(|m| is_live(m) && has_class(m, "group")).collect();
    let mut out = BTreeSet::new();
    let mut todo = vec![who];
    while let Some(x) = todo.pop() {
        for g in &live {
            if (uuids_of(g, "member").contains(&x) || uuids_of(g, "dynmember").contains(&x)) && out.insert(g.uuid) {
                todo.push(g.uuid);
            }
        }
    }
    out
}

pub fn name_of(m: &MEntry) -> String {
    m.get("name").and_then(|s| s.iter().next().cloned()).unwrap_or_else(|| m.uuid.to_string())
}

// ---------------------------------------------------------------------------------------------
// Grant model (C23 / C24): interpretation of the stored access control profile entries.
// ---------------------------------------------------------------------------------------------

/// Translation of the JSON text of a stored `acp_targetscope` (proto filter) into the harness AST.
pub fn f_of_proto_json(v: &serde_json::Value) -> Option<F> {
    let o = v.as_object()?;
    if o.len() != 1 {
        if v.as_str() == Some("self") {
            return Some(F::SelfUuid);
        }
        return None;
    }
    let (k, body) = o.iter().next()?;
    let pair = |b: &serde_json::Value| -> Option<(String, String)> {
        let a = b.as_array()?;
        Some((a.first()?.as_str()?.to_lowercase(), a.get(1)?.as_str()?.to_string()))
    };
    Some(match k.as_str() {
        "eq" => {
            let (a, v) = pair(body)?;
            F::Eq(a, v)
        }
        "cnt" => {
            let (a, v) = pair(body)?;
            F::Cnt(a, v)
        }
        "pres" => F::Pres(body.as_str()?.to_lowercase()),
        "or" => F::Or(body.as_array()?.iter().map(f_of_proto_json).collect::<Option<Vec<_>>>()?),
        "and" => F::And(body.as_array()?.iter().map(f_of_proto_json).collect::<Option<Vec<_>>>()?),
        "andnot" => F::Not(Box::new(f_of_proto_json(body)?)),
        "self" => F::SelfUuid,
        _ => return None,
    })
}

pub fn f_of_proto_str(s: &str) -> Option<F> {
    if s.trim() == "\"self\"" {
        return Some(F::SelfUuid);
    }
    let v: serde_json::Value = serde_json::from_str(s).ok()?;
    if v.as_str() == Some("self") {
        return Some(F::SelfUuid);
    }
    f_of_proto_json(&v)
}

pub use fil::eval as eval_filter;
