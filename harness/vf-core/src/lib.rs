//! vf-core: the engine shared by every property check.
//!
//! * seed plumbing (`VERIF_SEED`), tiers, sharded proptest runner with shrinking,
//! * bounded-exhaustive enumerator,
//! * panic capture, known-findings matcher, replay files, evidence writer.
//!
//! A check is a binary: `cXX <quick|thorough> [--replay <file>]`.
//! Exit codes: 0 held, 1 violation (prints `VIOLATION property=<id> replay=<path>`),
//! 2 inconclusive (never a violation).

pub use proptest;
pub use serde;
pub use serde_json;

use proptest::strategy::{Strategy, ValueTree};
use proptest::test_runner::{Config, RngAlgorithm, RngSeed, TestCaseError, TestError, TestRunner};
use serde::de::DeserializeOwned;
use serde::Serialize;
use serde_json::{json, Value};
use std::cell::RefCell;
use std::collections::hash_map::DefaultHasher;
use std::collections::{BTreeMap, HashSet};
use std::fmt::Debug;
use std::hash::{Hash, Hasher};
use std::panic::{catch_unwind, AssertUnwindSafe};
use std::path::PathBuf;
use std::sync::atomic::{AtomicBool, AtomicU64, Ordering};
use std::sync::Mutex;
use std::time::Instant;

#[derive(Debug, Clone, Copy, PartialEq, Eq)]
pub enum Tier {
    Quick,
    Thorough,
}

impl Tier {
    pub fn as_str(&self) -> &'static str {
        match self {
            Tier::Quick => "quick",
            Tier::Thorough => "thorough",
        }
    }
    /// Pick a size by tier.
    pub fn pick<T>(&self, quick: T, thorough: T) -> T {
        match self {
            Tier::Quick => quick,
            Tier::Thorough => thorough,
        }
    }
}

#[derive(Debug, Clone)]
pub enum Verdict {
    Pass,
    /// Case was not applicable (generator produced something the check cannot use). Counted.
    Discard,
    /// `sig` identifies the root cause (used for known-finding matching and to keep shrinking on
    /// the same failure); `msg` is the human readable detail.
    Fail { sig: String, msg: String },
}

#[derive(Debug, Clone)]
pub struct Outcome {
    pub nontrivial: bool,
    pub classes: Vec<String>,
    pub verdict: Verdict,
    /// Optional pretty form of the case for the evidence samples (defaults to the value itself).
    pub sample: Option<Value>,
}

impl Outcome {
    pub fn pass(nontrivial: bool) -> Self {
        Outcome {
            nontrivial,
            classes: Vec::new(),
            verdict: Verdict::Pass,
            sample: None,
        }
    }
    pub fn discard() -> Self {
        Outcome {
            nontrivial: false,
            classes: vec!["discarded".into()],
            verdict: Verdict::Discard,
            sample: None,
        }
    }
    pub fn fail(sig: impl Into<String>, msg: impl Into<String>) -> Self {
        Outcome {
            nontrivial: true,
            classes: Vec::new(),
            verdict: Verdict::Fail {
                sig: sig.into(),
                msg: msg.into(),
            },
            sample: None,
        }
    }
    pub fn class(mut self, c: impl Into<String>) -> Self {
        self.classes.push(c.into());
        self
    }
    pub fn class_if(mut self, cond: bool, c: &str) -> Self {
        if cond {
            self.classes.push(c.into());
        }
        self
    }
    pub fn classes<I: IntoIterator<Item = String>>(mut self, it: I) -> Self {
        self.classes.extend(it);
        self
    }
    pub fn sample(mut self, v: Value) -> Self {
        self.sample = Some(v);
        self
    }
    pub fn is_fail(&self) -> bool {
        matches!(self.verdict, Verdict::Fail { .. })
    }
}

/// Accumulates several findings inside one case; first failure wins.
#[derive(Default)]
pub struct CaseLog {
    pub nontrivial: bool,
    pub classes: Vec<String>,
    pub fail: Option<(String, String)>,
}
impl CaseLog {
    pub fn new() -> Self {
        Self::default()
    }
    pub fn class(&mut self, c: impl Into<String>) {
        let c = c.into();
        if !self.classes.contains(&c) {
            self.classes.push(c);
        }
    }
    pub fn nontrivial(&mut self) {
        self.nontrivial = true;
    }
    pub fn fail(&mut self, sig: impl Into<String>, msg: impl Into<String>) {
        if self.fail.is_none() {
            self.fail = Some((sig.into(), msg.into()));
        }
    }
    pub fn failed(&self) -> bool {
        self.fail.is_some()
    }
    pub fn finish(self) -> Outcome {
        let verdict = match self.fail {
            Some((sig, msg)) => Verdict::Fail { sig, msg },
            None => Verdict::Pass,
        };
        Outcome {
            nontrivial: self.nontrivial,
            classes: self.classes,
            verdict,
            sample: None,
        }
    }
}

#[derive(Debug, Clone, serde::Deserialize)]
pub struct KnownFinding {
    pub property: String,
    /// "known" (suppresses VIOLATION, prints KNOWN-FINDING) or "fixed" (suppresses nothing).
    pub status: String,
    pub signature: String,
    #[serde(default)]
    pub description: String,
    #[serde(default)]
    pub commit: String,
}

#[derive(Default)]
struct SubStats {
    evaluations: u64,
    nontrivial: u64,
    discarded: u64,
    exhaustive: Option<bool>,
    classes: BTreeMap<String, u64>,
}

#[derive(Default)]
struct State {
    evaluations: u64,
    distinct: HashSet<u64>,
    /// non-trivial cases counted without hashing (enumerations: distinct by construction)
    nontrivial_enum: u64,
    classes: BTreeMap<String, u64>,
    samples: Vec<Value>,
    excluded_known: u64,
    known_hits: BTreeMap<String, u64>,
    violations: Vec<(String, String, String)>,
    subs: BTreeMap<String, SubStats>,
    rule: String,
    assumptions: Vec<String>,
    extra: BTreeMap<String, Value>,
    inconclusive: Vec<String>,
    all_exhaustive: Option<bool>,
}

pub struct Check {
    pub id: String,
    pub tier: Tier,
    pub seed: u64,
    pub level: String,
    pub threads: usize,
    pub root: PathBuf,
    pub replay: Option<PathBuf>,
    start: Instant,
    known: Vec<KnownFinding>,
    state: Mutex<State>,
    stop: AtomicBool,
}

#[derive(Clone, Copy)]
pub struct PropCfg {
    pub cases: u64,
    pub shrink_iters: u32,
    /// 0 = use all threads
    pub threads: usize,
}
impl PropCfg {
    pub fn new(cases: u64) -> Self {
        PropCfg {
            cases,
            shrink_iters: 2000,
            threads: 0,
        }
    }
    pub fn shrink(mut self, n: u32) -> Self {
        self.shrink_iters = n;
        self
    }
    pub fn threads(mut self, n: usize) -> Self {
        self.threads = n;
        self
    }
}

thread_local! {
    static LAST_PANIC: RefCell<Option<String>> = const { RefCell::new(None) };
    static QUIET_PANIC: RefCell<bool> = const { RefCell::new(false) };
}

fn install_panic_hook() {
    let default = std::panic::take_hook();
    std::panic::set_hook(Box::new(move |info| {
        let quiet = QUIET_PANIC.with(|q| *q.borrow());
        let loc = info
            .location()
            .map(|l| format!("{}:{}", l.file(), l.line()))
            .unwrap_or_default();
        let payload = if let Some(s) = info.payload().downcast_ref::<&str>() {
            s.to_string()
        } else if let Some(s) = info.payload().downcast_ref::<String>() {
            s.clone()
        } else {
            "<non-string panic>".to_string()
        };
        LAST_PANIC.with(|p| *p.borrow_mut() = Some(format!("{loc}: {payload}")));
        if !quiet {
            default(info);
        }
    }));
}

pub fn hash_str(s: &str) -> u64 {
    let mut h = DefaultHasher::new();
    s.hash(&mut h);
    h.finish()
}

fn mix(a: u64, b: u64) -> u64 {
    // splitmix64 style
    let mut z = a ^ b.wrapping_mul(0x9E37_79B9_7F4A_7C15);
    z = (z ^ (z >> 30)).wrapping_mul(0xBF58_476D_1CE4_E5B9);
    z = (z ^ (z >> 27)).wrapping_mul(0x94D0_49BB_1331_11EB);
    z ^ (z >> 31)
}

fn truncate_value(v: Value, budget: usize) -> Value {
    let s = v.to_string();
    if s.len() <= budget {
        v
    } else {
        let mut cut = budget;
        while !s.is_char_boundary(cut) {
            cut -= 1;
        }
        json!({"truncated_json": s[..cut].to_string(), "full_len": s.len()})
    }
}

/// Run `f`, converting a panic into a failing outcome.
pub fn guarded<F: FnOnce() -> Outcome>(f: F) -> Outcome {
    QUIET_PANIC.with(|q| *q.borrow_mut() = true);
    let r = catch_unwind(AssertUnwindSafe(f));
    QUIET_PANIC.with(|q| *q.borrow_mut() = false);
    match r {
        Ok(o) => o,
        Err(_) => {
            let m = LAST_PANIC
                .with(|p| p.borrow_mut().take())
                .unwrap_or_else(|| "panic".into());
            // signature: location only (first token), message in msg
            let sig = format!("panic@{}", m.split(": ").next().unwrap_or(""));
            Outcome::fail(sig, m)
        }
    }
}

impl Check {
    /// Parse argv/env and build the check context.
    pub fn from_args(id: &str, level: &str) -> Check {
        let args: Vec<String> = std::env::args().collect();
        let mut tier = match std::env::var("VERIF_TIER").ok().as_deref() {
            Some("thorough") => Tier::Thorough,
            _ => Tier::Quick,
        };
        let mut replay = None;
        let mut i = 1;
        while i < args.len() {
            match args[i].as_str() {
                "quick" => tier = Tier::Quick,
                "thorough" => tier = Tier::Thorough,
                "--replay" => {
                    i += 1;
                    replay = args.get(i).map(PathBuf::from);
                }
                _ => {}
            }
            i += 1;
        }
        let seed = std::env::var("VERIF_SEED")
            .ok()
            .and_then(|s| s.trim().parse::<i128>().ok())
            .map(|v| v as u64)
            .unwrap_or(1);
        let root = PathBuf::from(std::env::var("VERIF_ROOT").unwrap_or_else(|_| "/verif".into()));
        let threads = std::env::var("VERIF_THREADS")
            .ok()
            .and_then(|s| s.parse().ok())
            .unwrap_or_else(|| {
                std::thread::available_parallelism()
                    .map(|n| n.get())
                    .unwrap_or(4)
            })
            .clamp(1, 16);
        let known: Vec<KnownFinding> = std::fs::read_to_string(root.join("known_findings.json"))
            .ok()
            .and_then(|s| serde_json::from_str::<Vec<KnownFinding>>(&s).ok())
            .unwrap_or_default()
            .into_iter()
            .filter(|k| k.property == id)
            .collect();
        install_panic_hook();
        // Watchdog: a hang is "inconclusive", never a violation.
        let limit_s: u64 = std::env::var("VERIF_WATCHDOG_S")
            .ok()
            .and_then(|s| s.parse().ok())
            .unwrap_or(match tier {
                Tier::Quick => 1500,
                Tier::Thorough => 6 * 3600,
            });
        let idc = id.to_string();
        std::thread::spawn(move || {
            std::thread::sleep(std::time::Duration::from_secs(limit_s));
            println!("INCONCLUSIVE property={idc} watchdog after {limit_s}s");
            std::process::exit(2);
        });
        Check {
            id: id.to_string(),
            tier,
            seed,
            level: level.to_string(),
            threads,
            root,
            replay,
            start: Instant::now(),
            known,
            state: Mutex::new(State::default()),
            stop: AtomicBool::new(false),
        }
    }

    pub fn elapsed_s(&self) -> f64 {
        self.start.elapsed().as_secs_f64()
    }
    pub fn rule(&self, r: &str) {
        self.state.lock().unwrap().rule = r.to_string();
    }
    pub fn assume(&self, a: &str) {
        self.state.lock().unwrap().assumptions.push(a.to_string());
    }
    pub fn extra(&self, k: &str, v: Value) {
        self.state.lock().unwrap().extra.insert(k.to_string(), v);
    }
    pub fn class_count(&self, c: &str) -> u64 {
        *self.state.lock().unwrap().classes.get(c).unwrap_or(&0)
    }
    /// A class that must be populated for the run to mean anything. Below the floor the run is
    /// inconclusive (exit 2), not a pass.
    pub fn require_class(&self, c: &str, floor: u64) {
        if self.replay.is_some() {
            return;
        }
        let n = self.class_count(c);
        if n < floor {
            self.state
                .lock()
                .unwrap()
                .inconclusive
                .push(format!("class '{c}' has {n} cases, floor {floor}"));
        }
    }
    pub fn inconclusive(&self, why: &str) {
        self.state.lock().unwrap().inconclusive.push(why.to_string());
    }
    pub fn has_violation(&self) -> bool {
        !self.state.lock().unwrap().violations.is_empty()
    }
    pub fn is_known(&self, sig: &str) -> bool {
        self.known
            .iter()
            .any(|k| k.status == "known" && k.signature == sig)
    }
    /// Signatures listed as known for this property (generators may use this to cap them).
    pub fn known_signatures(&self) -> Vec<String> {
        self.known
            .iter()
            .filter(|k| k.status == "known")
            .map(|k| k.signature.clone())
            .collect()
    }

    fn record_counts(&self, sub: &str, o: &Outcome, hash: Option<u64>, sample: impl FnOnce() -> Value) {
        let mut st = self.state.lock().unwrap();
        st.evaluations += 1;
        let want_sample = o.nontrivial && st.samples.len() < 5 && {
            // spread samples: take 1st, then every time evaluations crosses a power of 4
            let n = st.evaluations;
            st.samples.is_empty() || n.is_power_of_two() && n.trailing_zeros() % 2 == 0
        };
        {
            let ss = st.subs.entry(sub.to_string()).or_default();
            ss.evaluations += 1;
            if o.nontrivial {
                ss.nontrivial += 1;
            }
            if matches!(o.verdict, Verdict::Discard) {
                ss.discarded += 1;
            }
            for c in &o.classes {
                *ss.classes.entry(c.clone()).or_default() += 1;
            }
        }
        for c in &o.classes {
            *st.classes.entry(c.clone()).or_default() += 1;
        }
        if o.nontrivial {
            match hash {
                Some(h) => {
                    st.distinct.insert(h);
                }
                None => st.nontrivial_enum += 1,
            }
        }
        if want_sample {
            let v = o.sample.clone().unwrap_or_else(sample);
            st.samples
                .push(json!({"sub": sub, "case": truncate_value(v, 3000)}));
        }
    }

    /// Handle a failing outcome: returns true when it is a known finding (absorbed).
    fn absorb_known(&self, sig: &str) -> bool {
        if self.is_known(sig) {
            let mut st = self.state.lock().unwrap();
            st.excluded_known += 1;
            *st.known_hits.entry(sig.to_string()).or_default() += 1;
            true
        } else {
            false
        }
    }

    fn write_replay<T: Serialize>(&self, sub: &str, sig: &str, msg: &str, value: &T) -> String {
        let body = json!({
            "property": self.id,
            "sub": sub,
            "signature": sig,
            "message": msg,
            "seed": self.seed,
            "tier": self.tier.as_str(),
            "value": value,
        });
        let text = serde_json::to_string_pretty(&body).unwrap_or_default();
        let dir = self.root.join("replays").join(&self.id);
        let _ = std::fs::create_dir_all(&dir);
        let path = dir.join(format!("{}-{:016x}.json", sub, hash_str(&text)));
        let _ = std::fs::write(&path, text);
        path.to_string_lossy().to_string()
    }

    fn record_violation(&self, sig: &str, msg: &str, path: &str) {
        let mut st = self.state.lock().unwrap();
        if !st.violations.is_empty() && self.replay.is_none() {
            // another worker already reported; one minimal reproduction per run is enough
            return;
        }
        st.violations
            .push((sig.to_string(), msg.to_string(), path.to_string()));
        drop(st);
        self.stop.store(true, Ordering::SeqCst);
        println!("VIOLATION property={} replay={}", self.id, path);
        println!("  signature: {sig}");
        let m: String = msg.chars().take(4000).collect();
        println!("  detail: {m}");
    }

    fn regress_files(&self, sub: &str) -> Vec<(PathBuf, Value)> {
        let mut out = Vec::new();
        let dir = self.root.join("replays").join("regress").join(&self.id);
        if let Ok(rd) = std::fs::read_dir(&dir) {
            let mut files: Vec<PathBuf> = rd.filter_map(|e| e.ok().map(|e| e.path())).collect();
            files.sort();
            for p in files {
                if let Ok(s) = std::fs::read_to_string(&p) {
                    if let Ok(v) = serde_json::from_str::<Value>(&s) {
                        if v.get("sub").and_then(|s| s.as_str()) == Some(sub) {
                            out.push((p, v));
                        }
                    }
                }
            }
        }
        out
    }

    /// Run one explicit value through the check function (replay / regression path; no proptest).
    fn run_one<T, St>(
        &self,
        sub: &str,
        st: &mut St,
        v: &T,
        f: &(impl Fn(&mut St, &T) -> Outcome + Sync),
        origin: &str,
    ) where
        T: Debug + Serialize,
    {
        let o = guarded(|| f(st, v));
        let h = hash_str(&serde_json::to_string(v).unwrap_or_default());
        self.record_counts(sub, &o, Some(h), || serde_json::to_value(v).unwrap_or(Value::Null));
        if let Verdict::Fail { sig, msg } = &o.verdict {
            if !self.absorb_known(sig) {
                let path = if origin.is_empty() {
                    self.write_replay(sub, sig, msg, v)
                } else {
                    origin.to_string()
                };
                self.record_violation(sig, msg, &path);
            }
        }
    }

    /// Random search with shrinking, sharded over worker threads.
    ///
    /// * `strat` builds the strategy (called once per worker),
    /// * `init` builds per-worker state (e.g. a tokio runtime),
    /// * `f` is the property: a pure function of the value (plus worker state used as a cache only).
    pub fn prop<T, S, St>(
        &self,
        sub: &str,
        cfg: PropCfg,
        strat: impl Fn() -> S + Sync,
        init: impl Fn() -> St + Sync,
        f: impl Fn(&mut St, &T) -> Outcome + Sync,
    ) where
        S: Strategy<Value = T>,
        T: Debug + Clone + Serialize + DeserializeOwned,
    {
        // --- replay mode: run only the saved value of the matching sub-check.
        if let Some(rp) = &self.replay {
            let Ok(s) = std::fs::read_to_string(rp) else {
                self.inconclusive(&format!("cannot read replay file {}", rp.display()));
                return;
            };
            let Ok(body) = serde_json::from_str::<Value>(&s) else {
                self.inconclusive("replay file is not JSON");
                return;
            };
            if body.get("sub").and_then(|s| s.as_str()) != Some(sub) {
                return;
            }
            match serde_json::from_value::<T>(body.get("value").cloned().unwrap_or(Value::Null)) {
                Ok(v) => {
                    let mut st = init();
                    self.run_one(sub, &mut st, &v, &f, &rp.to_string_lossy());
                }
                Err(e) => self.inconclusive(&format!("replay value does not decode: {e}")),
            }
            return;
        }
        if self.stop.load(Ordering::SeqCst) {
            return;
        }
        // --- regression inputs first (seconds-long replay tier).
        let regress = self.regress_files(sub);
        if !regress.is_empty() {
            let mut st = init();
            for (p, body) in regress {
                match serde_json::from_value::<T>(body.get("value").cloned().unwrap_or(Value::Null)) {
                    Ok(v) => {
                        self.run_one(sub, &mut st, &v, &f, &p.to_string_lossy());
                        let mut s = self.state.lock().unwrap();
                        *s.classes.entry("regression-replay".into()).or_default() += 1;
                    }
                    Err(e) => {
                        println!("note: regression file {} does not decode: {e}", p.display());
                    }
                }
            }
            if self.stop.load(Ordering::SeqCst) {
                return;
            }
        }
        // --- random search
        let threads = if cfg.threads == 0 {
            self.threads
        } else {
            cfg.threads.min(self.threads)
        }
        .min(cfg.cases.max(1) as usize)
        .max(1);
        let per = cfg.cases / threads as u64;
        let rem = cfg.cases % threads as u64;
        let base = mix(mix(self.seed, hash_str(&self.id)), hash_str(sub));
        std::thread::scope(|scope| {
            for shard in 0..threads {
                let n = per + if (shard as u64) < rem { 1 } else { 0 };
                if n == 0 {
                    continue;
                }
                let strat = &strat;
                let init = &init;
                let f = &f;
                scope.spawn(move || {
                    let seed = mix(base, shard as u64 + 1);
                    let mut config = Config::default();
                    config.cases = n.min(u32::MAX as u64) as u32;
                    config.failure_persistence = None;
                    config.rng_algorithm = RngAlgorithm::ChaCha;
                    config.rng_seed = RngSeed::Fixed(seed);
                    config.max_shrink_iters = cfg.shrink_iters;
                    config.max_local_rejects = 65_536;
                    config.max_global_rejects = 65_536;
                    config.verbose = 0;
                    let mut runner = TestRunner::new(config);
                    let mut st = init();
                    let strategy = strat();
                    // Own loop (instead of TestRunner::run) so that counting stops exactly at
                    // the first failure and shrinking is keyed on the failure signature.
                    let mut done = 0u64;
                    while done < n {
                        if self.stop.load(Ordering::SeqCst) {
                            return;
                        }
                        let mut tree = match strategy.new_tree(&mut runner) {
                            Ok(t) => t,
                            Err(e) => {
                                self.inconclusive(&format!("{sub}: generator rejected: {e}"));
                                return;
                            }
                        };
                        let v = tree.current();
                        let o = guarded(|| f(&mut st, &v));
                        done += 1;
                        let text = serde_json::to_string(&v).unwrap_or_default();
                        self.record_counts(sub, &o, Some(hash_str(&text)), || {
                            serde_json::to_value(&v).unwrap_or(Value::Null)
                        });
                        let Verdict::Fail { sig, msg } = o.verdict else {
                            continue;
                        };
                        if self.absorb_known(&sig) {
                            continue;
                        }
                        // ---- shrink, keeping the same signature
                        let mut best = v;
                        let mut best_msg = msg;
                        let mut iters = 0u32;
                        if tree.simplify() {
                            loop {
                                if iters >= cfg.shrink_iters {
                                    break;
                                }
                                iters += 1;
                                let cand = tree.current();
                                let oc = guarded(|| f(&mut st, &cand));
                                let same = matches!(&oc.verdict, Verdict::Fail { sig: s2, .. } if *s2 == sig);
                                if same {
                                    if let Verdict::Fail { msg: m2, .. } = oc.verdict {
                                        best_msg = m2;
                                    }
                                    best = cand;
                                    if !tree.simplify() {
                                        break;
                                    }
                                } else if !tree.complicate() {
                                    break;
                                }
                            }
                        }
                        let path = self.write_replay(sub, &sig, &best_msg, &best);
                        self.record_violation(&sig, &best_msg, &path);
                        return;
                    }
                });
            }
        });
        let _ = TestCaseError::fail("unused");
        let _: Option<TestError<()>> = None;
    }

    /// Bounded-exhaustive enumeration of `total` cases, case i built by `make(i)`.
    /// Distinct by construction (no hashing). Marks the sub-check exhaustive when completed.
    pub fn enumerate<T, St>(
        &self,
        sub: &str,
        total: u64,
        make: impl Fn(u64) -> T + Sync,
        init: impl Fn() -> St + Sync,
        f: impl Fn(&mut St, &T) -> Outcome + Sync,
    ) where
        T: Debug + Serialize + DeserializeOwned,
    {
        if let Some(rp) = &self.replay {
            let Ok(s) = std::fs::read_to_string(rp) else {
                return;
            };
            let Ok(body) = serde_json::from_str::<Value>(&s) else {
                return;
            };
            if body.get("sub").and_then(|s| s.as_str()) != Some(sub) {
                return;
            }
            if let Ok(v) = serde_json::from_value::<T>(body.get("value").cloned().unwrap_or(Value::Null)) {
                let mut st = init();
                self.run_one(sub, &mut st, &v, &f, &rp.to_string_lossy());
            }
            return;
        }
        if self.stop.load(Ordering::SeqCst) {
            return;
        }
        let threads = self.threads.min(total.max(1) as usize).max(1);
        let next = AtomicU64::new(0);
        const CHUNK: u64 = 64;
        let completed = AtomicBool::new(true);
        std::thread::scope(|scope| {
            for _ in 0..threads {
                let make = &make;
                let init = &init;
                let f = &f;
                let next = &next;
                let completed = &completed;
                scope.spawn(move || {
                    let mut st = init();
                    // local accumulation to keep the mutex cold
                    let mut evals = 0u64;
                    let mut nontriv = 0u64;
                    let mut classes: BTreeMap<String, u64> = BTreeMap::new();
                    let mut sample: Option<Value> = None;
                    'outer: loop {
                        let lo = next.fetch_add(CHUNK, Ordering::SeqCst);
                        if lo >= total {
                            break;
                        }
                        for i in lo..(lo + CHUNK).min(total) {
                            if self.stop.load(Ordering::Relaxed) {
                                completed.store(false, Ordering::SeqCst);
                                break 'outer;
                            }
                            let v = make(i);
                            let o = guarded(|| f(&mut st, &v));
                            evals += 1;
                            if o.nontrivial {
                                nontriv += 1;
                                if sample.is_none() {
                                    sample = Some(
                                        o.sample
                                            .clone()
                                            .unwrap_or_else(|| serde_json::to_value(&v).unwrap_or(Value::Null)),
                                    );
                                }
                            }
                            for c in &o.classes {
                                *classes.entry(c.clone()).or_default() += 1;
                            }
                            if let Verdict::Fail { sig, msg } = &o.verdict {
                                if !self.absorb_known(sig) {
                                    let path = self.write_replay(sub, sig, msg, &v);
                                    self.record_violation(sig, msg, &path);
                                    completed.store(false, Ordering::SeqCst);
                                    break 'outer;
                                }
                            }
                        }
                    }
                    let mut s = self.state.lock().unwrap();
                    s.evaluations += evals;
                    s.nontrivial_enum += nontriv;
                    {
                        let ss = s.subs.entry(sub.to_string()).or_default();
                        ss.evaluations += evals;
                        ss.nontrivial += nontriv;
                        for (c, n) in &classes {
                            *ss.classes.entry(c.clone()).or_default() += n;
                        }
                    }
                    for (c, n) in classes {
                        *s.classes.entry(c).or_default() += n;
                    }
                    if let Some(v) = sample {
                        if s.samples.len() < 6 {
                            s.samples
                                .push(json!({"sub": sub, "case": truncate_value(v, 3000)}));
                        }
                    }
                });
            }
        });
        let done = completed.load(Ordering::SeqCst);
        let mut s = self.state.lock().unwrap();
        s.subs.entry(sub.to_string()).or_default().exhaustive = Some(done);
        s.all_exhaustive = Some(s.all_exhaustive.unwrap_or(true) && done);
    }

    /// Mark that part of the run was random (so the whole run is not exhaustive).
    pub fn not_exhaustive(&self) {
        self.state.lock().unwrap().all_exhaustive = Some(false);
    }

    /// Write evidence and exit with the contract's code.
    pub fn finish(&self) -> ! {
        let st = self.state.lock().unwrap();
        let wall = self.start.elapsed().as_secs_f64();
        let mut subs = serde_json::Map::new();
        let mut any_random = false;
        for (k, v) in &st.subs {
            if v.exhaustive.is_none() {
                any_random = true;
            }
            subs.insert(
                k.clone(),
                json!({
                    "evaluations": v.evaluations,
                    "nontrivial": v.nontrivial,
                    "discarded": v.discarded,
                    "exhaustive": v.exhaustive.unwrap_or(false),
                    "classes": v.classes,
                }),
            );
        }
        let _ = any_random;
        // true when every bounded-exhaustive sub-check of this run enumerated its finite space completely
        // (random sub-checks, if any, are in addition; see `subchecks`).
        let exhaustive = st.all_exhaustive.unwrap_or(false) && st.violations.is_empty();
        let distinct = st.distinct.len() as u64 + st.nontrivial_enum;
        let mut coverage = serde_json::Map::new();
        coverage.insert("evaluations".into(), json!(st.evaluations));
        coverage.insert("distinct_nontrivial".into(), json!(distinct));
        coverage.insert("rule".into(), json!(st.rule));
        coverage.insert("samples".into(), json!(st.samples));
        coverage.insert("classes".into(), json!(st.classes));
        coverage.insert("excluded_known".into(), json!(st.excluded_known));
        coverage.insert("known_findings_observed".into(), json!(st.known_hits));
        coverage.insert("exhaustive".into(), json!(exhaustive));
        coverage.insert("subchecks".into(), Value::Object(subs));
        coverage.insert("threads".into(), json!(self.threads));
        if self.replay.is_some() {
            coverage.insert("replay".into(), json!(true));
        }
        for (k, v) in &st.extra {
            coverage.insert(k.clone(), v.clone());
        }
        let ev = json!({
            "property_id": self.id,
            "tier": self.tier.as_str(),
            "seed": (self.seed & 0x7fff_ffff_ffff_ffff) as i64,
            "level": self.level,
            "coverage": Value::Object(coverage),
            "assumptions": st.assumptions,
            "wall_s": (wall * 1000.0).round() / 1000.0,
            "violations": st.violations.len(),
            "inconclusive": st.inconclusive,
        });
        if self.replay.is_none() {
            let dir = self.root.join("evidence");
            let _ = std::fs::create_dir_all(&dir);
            let _ = std::fs::write(
                dir.join(format!("{}.json", self.id)),
                serde_json::to_string_pretty(&ev).unwrap_or_default(),
            );
        }
        for (sig, n) in &st.known_hits {
            let desc = self
                .known
                .iter()
                .find(|k| &k.signature == sig)
                .map(|k| k.description.clone())
                .unwrap_or_default();
            println!("KNOWN-FINDING: property={} {} [{} cases] {}", self.id, sig, n, desc);
        }
        println!(
            "{} {} seed={} evaluations={} distinct_nontrivial={} violations={} wall={:.1}s",
            self.id,
            self.tier.as_str(),
            self.seed,
            st.evaluations,
            distinct,
            st.violations.len(),
            wall
        );
        if !st.violations.is_empty() {
            std::process::exit(1);
        }
        if !st.inconclusive.is_empty() {
            for i in &st.inconclusive {
                println!("INCONCLUSIVE property={} {}", self.id, i);
            }
            std::process::exit(2);
        }
        if self.replay.is_none() && (st.evaluations == 0 || distinct < 2) {
            println!("INCONCLUSIVE property={} nothing non-trivial explored", self.id);
            std::process::exit(2);
        }
        std::process::exit(0);
    }
}

/// Monotone index mapping (shrinks well): maps a u16-ish selector onto 0..len.
pub fn pick_idx(sel: u16, len: usize) -> usize {
    if len == 0 {
        0
    } else {
        ((sel as usize) * len) >> 16
    }
}
