#!/bin/bash
# Generates the seeded C30 corpus (independent implementations, see py/gen_pw_corpus.py) into
# verif/target/ unless it is already there. usage: pre-c30.sh <quick|thorough> [...]
set -eu
HERE="$(cd "$(dirname "${BASH_SOURCE[0]}")/.." && pwd)"
tier="${VERIF_TIER:-quick}"
for a in "$@"; do case "$a" in quick|thorough) tier="$a";; esac; done
seed="${VERIF_SEED:-1}"
# the check reads the seed as i128 -> u64; keep plain non-negative seeds identical
case "$seed" in ''|*[!0-9]*) seed=$(python3 -c "import sys; print(int(sys.argv[1]) % (1<<64))" "$seed");; esac
out="$HERE/target/c30-corpus-$seed-$tier.json"
count=1500; [ "$tier" = thorough ] && count=20000
mkdir -p "$HERE/target"
if [ ! -s "$out" ]; then
  python3 -W ignore "$HERE/py/gen_pw_corpus.py" "$seed" "$count" "$out.tmp"
  mv "$out.tmp" "$out"
fi
